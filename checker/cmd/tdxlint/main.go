package main

import (
	"encoding/json"
	"flag"
	"fmt"
	"os"
	"path/filepath"
	"runtime/debug"
	"strconv"
	"strings"
	"time"

	"tdxlint/internal/check"
	"tdxlint/internal/flow"
	"tdxlint/internal/load"
	"tdxlint/internal/props"
)

func main() {
	prop := flag.String("property", "", "property id (C01..C20)")
	tier := flag.String("tier", "", "quick|thorough (default $VERIF_TIER or quick)")
	repo := flag.String("repo", "/repo", "repository root")
	verif := flag.String("verif", "/verif", "verification directory")
	explain := flag.String("explain", "", "replay file: re-run that rule instance and print the diagnosis")
	dump := flag.String("dump", "", "pkg.Func: dump success alternatives (debug)")
	assume := flag.String("assume", "", "comma separated term=bool (debug)")
	mode := flag.String("mode", "err", "err|true|false|all (debug)")
	atoms := flag.String("atoms", "", "comma separated pkg.Func atoms (debug)")
	noEvidence := flag.Bool("no-evidence", false, "do not write evidence (self-test runs)")
	genAnchors := flag.Bool("gen-anchors", false, "print the structural locator table of the unexported helpers of -repo (maintenance: internal/load/anchors.json)")
	flag.Parse()
	start := time.Now()
	if *tier == "" {
		*tier = os.Getenv("VERIF_TIER")
	}
	if *tier != "thorough" {
		*tier = "quick"
	}
	seed, _ := strconv.Atoi(os.Getenv("VERIF_SEED"))
	if *explain != "" {
		b, err := os.ReadFile(*explain)
		if err != nil {
			fmt.Fprintln(os.Stderr, err)
			os.Exit(2)
		}
		var rp struct {
			Property string `json:"property"`
			Key      string `json:"key"`
		}
		json.Unmarshal(b, &rp)
		*prop = rp.Property
		fmt.Printf("replaying %s (%s) on the current tree\n", rp.Key, rp.Property)
		*noEvidence = true
	}
	if *genAnchors {
		p, err := load.Load(load.Config{Dir: *repo, GOOS: "linux", GOARCH: "amd64"})
		if err != nil {
			fmt.Fprintln(os.Stderr, err)
			os.Exit(2)
		}
		b, err := p.GenAnchors()
		if err != nil {
			fmt.Fprintln(os.Stderr, err)
			os.Exit(2)
		}
		fmt.Println(string(b))
		return
	}
	if *dump != "" {
		debugDump(*repo, *dump, *assume, *mode, *atoms)
		return
	}
	chk, ok := props.Registry[*prop]
	if !ok {
		fmt.Fprintf(os.Stderr, "unknown property %q; registered: %v\n", *prop, props.IDs())
		os.Exit(2)
	}
	configs := []load.Config{{Dir: *repo, GOOS: "linux", GOARCH: "amd64"}}
	if *tier == "thorough" {
		configs = append(configs,
			load.Config{Dir: *repo, GOOS: "linux", GOARCH: "386"},
			load.Config{Dir: *repo, GOOS: "darwin", GOARCH: "amd64"},
			load.Config{Dir: *repo, GOOS: "windows", GOARCH: "amd64"},
		)
	}
	var res *check.Result
	for i, cfg := range configs {
		r, err := runOne(chk, *prop, cfg, *tier)
		if err != nil {
			fmt.Fprintf(os.Stderr, "%s: analysis failed on %s: %v\n", *prop, cfg, err)
			os.Exit(2)
		}
		r.BuildConfigs = []string{cfg.String()}
		if i == 0 {
			res = r
		} else {
			res.Merge(r, cfg.String())
			res.BuildConfigs = append(res.BuildConfigs, cfg.String())
		}
	}
	known, err := check.LoadKnown(filepath.Join(*verif, "known_findings.json"))
	if err != nil {
		fmt.Fprintln(os.Stderr, "known_findings.json:", err)
		os.Exit(2)
	}
	if *noEvidence {
		tmp, _ := os.MkdirTemp("", "tdxlint-ev")
		defer os.RemoveAll(tmp)
		code := res.Finish(tmp, *tier, seed, start, known, strings.Join(os.Args, " "))
		os.RemoveAll(tmp)
		os.Exit(code)
	}
	os.Exit(res.Finish(*verif, *tier, seed, start, known, strings.Join(os.Args, " ")))
}

func runOne(chk props.Checker, id string, cfg load.Config, tier string) (res *check.Result, err error) {
	defer func() {
		if rec := recover(); rec != nil {
			err = fmt.Errorf("analysis panic: %v", rec)
			if os.Getenv("TDXLINT_TRACE") != "" {
				fmt.Fprintf(os.Stderr, "%s\n", debug.Stack())
			}
			if os.Getenv("TDXLINT_DEBUG") != "" {
				panic(rec)
			}
		}
	}()
	p, err := load.Load(cfg)
	if err != nil {
		return nil, err
	}
	if len(p.Pkgs) < 16 {
		return nil, fmt.Errorf("only %d packages loaded; expected at least 16", len(p.Pkgs))
	}
	res = check.NewResult(id)
	chk(&props.Env{P: p, R: res, Tier: tier})
	if len(p.AliasNotes) > 0 {
		res.Extra["anchor_aliases"] = p.AliasNotes
	}
	return res, nil
}

func debugDump(repo, fnName, assume, mode, atoms string) {
	p, err := load.Load(load.Config{Dir: repo, GOOS: "linux", GOARCH: "amd64"})
	if err != nil {
		fmt.Fprintln(os.Stderr, err)
		os.Exit(2)
	}
	i := strings.LastIndex(fnName, ".")
	fn := p.Func(fnName[:i], fnName[i+1:])
	if fn == nil {
		fmt.Fprintln(os.Stderr, "no such function")
		os.Exit(2)
	}
	e := flow.NewEngine(p)
	for _, a := range strings.Split(atoms, ",") {
		if a == "" {
			continue
		}
		j := strings.LastIndex(a, ".")
		if f := p.Func(a[:j], a[j+1:]); f != nil {
			e.Atoms[f] = true
		}
	}
	for _, kv := range strings.Split(assume, ",") {
		if kv == "" {
			continue
		}
		j := strings.LastIndex(kv, "=")
		e.Assume[kv[:j]] = kv[j+1:] == "true"
	}
	m := map[string]flow.Mode{"err": flow.ModeErr, "true": flow.ModeTrue, "false": flow.ModeFalse, "all": flow.ModeAll}[mode]
	alts := e.EntryPaths(fn, m)
	for i, a := range alts {
		fmt.Printf("ALT %d %s\n", i, e.DescribeAlt(a))
		for j, r := range a.Results {
			fmt.Printf("  result %d = %s\n", j, r)
		}
	}
	for _, u := range e.Undecided {
		fmt.Println("UNDECIDED:", u)
	}
}
