// Package flow is the shared analysis core: provenance terms over go/ssa
// values (eval.go), pruned control-flow graphs with dominators and natural
// loops (cfg.go), and per-function success-path summaries expressed as
// alternatives of enforced gates (paths.go).
package flow

import (
	"fmt"
	"go/token"
	"go/types"
	"sort"
	"strings"

	"golang.org/x/tools/go/ssa"
)

// Term is a provenance term: where a value comes from, as a tree over entry
// parameters, constants, library calls, field selections, slices and a few
// derived forms. Terms are compared by their canonical string.
type Term struct {
	Op   string
	Name string
	Args []*Term
	Pos  token.Pos
	Typ  types.Type
	Val  ssa.Value // originating SSA value (may be nil)
	// Ctx is the context in which an OpNew object was allocated (not part of
	// the term's identity).
	Ctx any

	str string
}

// Operators.
const (
	OpParam   = "param"  // Name = "<func>#<idx>:<name>"
	OpConst   = "const"  // Name = literal
	OpGlobal  = "global" // Name = qualified name (the variable's value)
	OpAddrG   = "addrglobal"
	OpField   = "field"  // Args[0].Name
	OpCall    = "call"   // Name = callee; Args = receiver+args
	OpInvoke  = "invoke" // Name = method#site; Args = receiver+args
	OpRes     = "res"    // Name = index; Args[0] = call
	OpSlice   = "slice"  // Args = x, lo, hi (missing => const "")
	OpIndex   = "index"  // Args = x, i
	OpBin     = "bin"    // Name = operator
	OpUn      = "un"     // Name = operator
	OpConv    = "conv"   // Name = target type
	OpAssert  = "assert" // Name = target type
	OpPhi     = "phi"    // unordered alternatives of a value
	OpIte     = "ite"    // Args = cond, then, else
	OpStruct  = "struct" // Name = type; Args = field terms (OpFieldInit)
	OpFInit   = "finit"  // Name = field name; Args[0] = value
	OpNew     = "new"    // Name = type#site; pointer to fresh object; Args = finit...
	OpMake    = "make"   // Name = type#site; Args = len, cap
	OpConcat  = "concat" // append chains, flattened
	OpLen     = "len"
	OpCap     = "cap"
	OpIter    = "iter" // Name = loop id; Args = init, step
	OpAddr    = "addr" // address of Args[0] (a field/index place)
	OpDeref   = "deref"
	OpLookup  = "lookup" // map/string lookup; Args = m, k
	OpFunc    = "func"   // function value
	OpClosure = "closure"
	OpArray   = "array"    // array/slice literal with known elements
	OpCopyOf  = "copyof"   // fresh copy of Args[0] (clone-shaped helper)
	OpElemOp  = "elemwise" // Name = operator; Args = a, b : fresh slice of a[i] op b[i]
	OpSelect  = "select"
	OpUnknown = "unknown"
	OpAny     = "*" // pattern wildcard
)

func (t *Term) String() string {
	if t == nil {
		return "_"
	}
	if t.str != "" {
		return t.str
	}
	var sb strings.Builder
	switch t.Op {
	case OpConst:
		sb.WriteString(t.Name)
	case OpParam:
		sb.WriteString("$" + t.Name)
	case OpGlobal:
		sb.WriteString("@" + t.Name)
	case OpField:
		sb.WriteString(t.Args[0].String() + "." + t.Name)
	case OpAny:
		sb.WriteString("*" + t.Name)
	default:
		sb.WriteString(t.Op)
		if t.Name != "" {
			sb.WriteString("[" + t.Name + "]")
		}
		sb.WriteString("(")
		for i, a := range t.Args {
			if i > 0 {
				sb.WriteString(", ")
			}
			sb.WriteString(a.String())
		}
		sb.WriteString(")")
	}
	t.str = sb.String()
	return t.str
}

// T builds a term.
func T(op, name string, args ...*Term) *Term { return &Term{Op: op, Name: name, Args: args} }

// N builds a term and puts it into canonical form (children must be canonical).
func N(op, name string, args ...*Term) *Term { return normalize(&Term{Op: op, Name: name, Args: args}) }

// C is a constant term.
func C(lit string) *Term { return &Term{Op: OpConst, Name: lit} }

// Eq reports structural equality.
func Eq(a, b *Term) bool { return a.String() == b.String() }

// IsConst reports whether t is the constant lit.
func (t *Term) IsConst(lit string) bool { return t != nil && t.Op == OpConst && t.Name == lit }

// Walk visits t and all sub-terms; stops descending when f returns false.
func (t *Term) Walk(f func(*Term) bool) {
	if t == nil || !f(t) {
		return
	}
	for _, a := range t.Args {
		a.Walk(f)
	}
}

// Contains reports whether any sub-term satisfies pred.
func (t *Term) Contains(pred func(*Term) bool) bool {
	found := false
	t.Walk(func(x *Term) bool {
		if found {
			return false
		}
		if pred(x) {
			found = true
			return false
		}
		return true
	})
	return found
}

// StripConv removes value-preserving wrappers (conversions, assertions).
// constLike: a term fixed at program start (literals and pure library calls on literals).
func constLike(t *Term) bool {
	switch t.Op {
	case OpConst:
		return true
	case OpConv:
		return len(t.Args) == 1 && constLike(t.Args[0])
	case OpCall:
		if strings.Contains(t.Name, "#") {
			return false
		}
		for _, a := range t.Args {
			if !constLike(a) {
				return false
			}
		}
		return strings.HasPrefix(t.Name, "(crypto.Hash).") || strings.HasPrefix(t.Name, "crypto/") || strings.HasPrefix(t.Name, "strings.") || strings.HasPrefix(t.Name, "encoding/hex.")
	}
	return false
}

func StripConv(t *Term) *Term {
	for t != nil && len(t.Args) == 1 {
		switch {
		case t.Op == OpConv, t.Op == OpAssert && !strings.HasSuffix(t.Name, ",ok"):
			t = t.Args[0]
			continue
		case t.Op == OpGlobal && constLike(t.Args[0]):
			// a package variable written once, by its initialiser, with a value fixed
			// at program start (`var size = crypto.SHA384.Size()`) reads as that value
			t = t.Args[0]
			continue
		}
		break
	}
	return t
}

var commutative = map[string]bool{"+": true, "*": true, "&": true, "|": true, "^": true, "==": true, "!=": true}

// flipCmp maps a comparison operator to the one obtained by swapping operands.
var flipCmp = map[string]string{"<": ">", ">": "<", "<=": ">=", ">=": "<=", "==": "==", "!=": "!="}

// negCmp maps a comparison to its negation.
var negCmp = map[string]string{"<": ">=", ">": "<=", "<=": ">", ">=": "<", "==": "!=", "!=": "=="}

// normalize puts a freshly built term into canonical form (children are
// assumed canonical already).
func normalize(t *Term) *Term {
	switch t.Op {
	case OpBin:
		a, b := t.Args[0], t.Args[1]
		// iter(L,-1,1)+1 => iter(L,0,1): the index of a range loop
		if t.Name == "+" {
			if a.Op == OpIter && b.Op == OpConst && a.Args[1].IsConst("1") {
				if n, ok := constInt(a.Args[0]); ok {
					if m, ok := constInt(b); ok {
						return &Term{Op: OpIter, Name: a.Name, Args: []*Term{C(fmt.Sprint(n + m)), a.Args[1]}, Pos: t.Pos, Typ: t.Typ, Val: t.Val}
					}
				}
			}
			if x, ok := constInt(a); ok {
				if y, ok := constInt(b); ok {
					return &Term{Op: OpConst, Name: fmt.Sprint(x + y), Pos: t.Pos, Typ: t.Typ, Val: t.Val}
				}
			}
		}
		if t.Name == "-" {
			if x, ok := constInt(a); ok {
				if y, ok := constInt(b); ok {
					return &Term{Op: OpConst, Name: fmt.Sprint(x - y), Pos: t.Pos, Typ: t.Typ, Val: t.Val}
				}
			}
		}
		// boolean connectives with a literal operand
		if t.Name == "&&" || t.Name == "||" {
			for i := 0; i < 2; i++ {
				lit, x := t.Args[i], t.Args[1-i]
				if lit.Op != OpConst || (lit.Name != "true" && lit.Name != "false") {
					continue
				}
				if (lit.Name == "true") == (t.Name == "&&") {
					return x // true && x, false || x
				}
				return lit // false && x, true || x
			}
		}
		// an address or a fresh allocation is never nil
		if t.Name == "==" || t.Name == "!=" {
			for i := 0; i < 2; i++ {
				if t.Args[i].IsConst("nil") {
					switch StripConv(t.Args[1-i]).Op {
					case OpAddr, OpNew, OpAddrG:
						if t.Name == "!=" {
							return C("true")
						}
						return C("false")
					}
				}
			}
		}
		// comparison of two integer literals
		if _, isCmp := negCmp[t.Name]; isCmp {
			if x, ok := constInt(a); ok {
				if y, ok := constInt(b); ok {
					var v bool
					switch t.Name {
					case "<":
						v = x < y
					case "<=":
						v = x <= y
					case ">":
						v = x > y
					case ">=":
						v = x >= y
					case "==":
						v = x == y
					case "!=":
						v = x != y
					}
					if v {
						return C("true")
					}
					return C("false")
				}
			}
		}
		// comparison of a boolean with a literal: x == true => x, x == false => !x
		if t.Name == "==" || t.Name == "!=" {
			for i := 0; i < 2; i++ {
				lit, x := t.Args[i], t.Args[1-i]
				if lit.Op != OpConst || (lit.Name != "true" && lit.Name != "false") || x.Op == OpConst {
					continue
				}
				if (lit.Name == "true") == (t.Name == "==") {
					return x
				}
				return normalize(&Term{Op: OpUn, Name: "!", Args: []*Term{x}, Pos: t.Pos, Typ: t.Typ, Val: t.Val})
			}
		}
		if t.Name == "+" && (stringTerm(a) || stringTerm(b)) {
			// string concatenation keeps its operand order
		} else if commutative[t.Name] && a.String() > b.String() {
			t.Args = []*Term{b, a}
		} else if f, ok := flipCmp[t.Name]; ok && !commutative[t.Name] && (t.Name == ">" || t.Name == ">=") {
			// canonical: only < and <=
			t.Name = f
			t.Args = []*Term{b, a}
		}
	case OpUn:
		if t.Name == "!" {
			x := t.Args[0]
			if x.Op == OpUn && x.Name == "!" {
				return x.Args[0]
			}
			if x.Op == OpBin {
				if n, ok := negCmp[x.Name]; ok {
					return normalize(&Term{Op: OpBin, Name: n, Args: []*Term{x.Args[0], x.Args[1]}, Pos: x.Pos, Typ: x.Typ, Val: x.Val})
				}
			}
			// De Morgan, so that a negated disjunction splits into separate gates
			if x.Op == OpBin && (x.Name == "||" || x.Name == "&&") {
				op := "&&"
				if x.Name == "&&" {
					op = "||"
				}
				return normalize(&Term{Op: OpBin, Name: op, Args: []*Term{Not(x.Args[0]), Not(x.Args[1])}, Pos: t.Pos, Typ: t.Typ, Val: t.Val})
			}
			if x.IsConst("true") {
				return C("false")
			}
			if x.IsConst("false") {
				return C("true")
			}
		}
	case OpSlice:
		// x[a:b][c:d] is x[a+c : a+d] (and x[a:b][c:] is x[a+c : b])
		if len(t.Args) == 3 {
			if in := t.Args[0]; in.Op == OpSlice && len(in.Args) == 3 {
				zero := func(x *Term) bool { return x.Op == OpConst && (x.Name == "" || x.Name == "0") }
				add := func(a, b *Term) *Term {
					switch {
					case zero(a) && zero(b):
						return C("")
					case zero(a):
						return b
					case zero(b):
						return a
					}
					return normalize(&Term{Op: OpBin, Name: "+", Args: []*Term{a, b}})
				}
				lo := add(in.Args[1], t.Args[1])
				hi := in.Args[2]
				if !(t.Args[2].Op == OpConst && t.Args[2].Name == "") {
					hi = add(in.Args[1], t.Args[2])
				}
				return normalize(&Term{Op: OpSlice, Name: in.Name, Args: []*Term{in.Args[0], lo, hi}, Pos: t.Pos, Typ: t.Typ, Val: t.Val})
			}
		}
	case "implies":
		if len(t.Args) == 2 {
			if t.Args[0].IsConst("true") {
				return t.Args[1]
			}
			if t.Args[0].IsConst("false") || t.Args[1].IsConst("true") {
				return C("true")
			}
		}
	case OpIndex:
		// element k of a finite literal sequence
		if len(t.Args) == 2 {
			if k, ok := constInt(StripConv(t.Args[1])); ok && k >= 0 {
				if els, ok := SeqElems(t.Args[0]); ok && int(k) < len(els) {
					return els[k]
				}
			}
		}
	case OpField:
		// field of a struct value
		if len(t.Args) == 1 {
			if x := StripConv(t.Args[0]); x.Op == OpStruct {
				for _, fi := range x.Args {
					if fi.Op == OpFInit && fi.Name == t.Name && len(fi.Args) == 1 {
						return fi.Args[0]
					}
				}
			}
		}
	case OpCall:
		// a.Before(b) is b.After(a), exactly (time.Time compares instants both ways)
		if t.Name == "(time.Time).Before" && len(t.Args) == 2 {
			return &Term{Op: OpCall, Name: "(time.Time).After", Args: []*Term{t.Args[1], t.Args[0]}, Pos: t.Pos, Typ: t.Typ, Val: t.Val}
		}
	case OpConcat:
		var flat []*Term
		for _, a := range t.Args {
			switch {
			case a.Op == OpConcat:
				flat = append(flat, a.Args...)
			case a.Op == OpMake && len(a.Args) > 0 && a.Args[0].IsConst("0"): // empty fresh buffer
			case a.IsConst("nil"):
			default:
				flat = append(flat, a)
			}
		}
		t.Args = flat
	case OpLen:
		x := StripConv(t.Args[0])
		if els, ok := SeqElems(x); ok {
			return &Term{Op: OpConst, Name: fmt.Sprint(len(els)), Pos: t.Pos, Typ: t.Typ, Ctx: seqLen}
		}
		switch x.Op {
		case OpCopyOf:
			return normalize(&Term{Op: OpLen, Args: []*Term{x.Args[0]}, Pos: t.Pos, Typ: t.Typ})
		case OpMake:
			return x.Args[0]
		case OpElemOp:
			return normalize(&Term{Op: OpLen, Args: []*Term{x.Args[0]}, Pos: t.Pos, Typ: t.Typ})
		case OpSlice:
			lo, hi := x.Args[1], x.Args[2]
			if hi.Name == "" && hi.Op == OpConst {
				hi = normalize(&Term{Op: OpLen, Args: []*Term{x.Args[0]}})
				if al, ok := arrayLen(x.Args[0]); ok {
					hi = C(fmt.Sprint(al))
				}
				if strings.HasPrefix(x.Name, "arr") {
					hi = C(strings.TrimPrefix(x.Name, "arr"))
				}
			}
			if lo.Op == OpConst && (lo.Name == "" || lo.Name == "0") {
				return hi
			}
			return normalize(&Term{Op: OpBin, Name: "-", Args: []*Term{hi, lo}, Typ: t.Typ})
		case OpConst:
			if strings.HasPrefix(x.Name, "\"") {
				if s, err := unquote(x.Name); err == nil {
					return C(fmt.Sprint(len(s)))
				}
			}
		case OpArray:
			return C(fmt.Sprint(len(x.Args)))
		}
		if al, ok := arrayLen(x); ok {
			return C(fmt.Sprint(al))
		}
	case OpPhi:
		// de-duplicate and sort alternatives
		seen := map[string]bool{}
		var alts []*Term
		for _, a := range t.Args {
			if a.Op == OpPhi {
				for _, b := range a.Args {
					if !seen[b.String()] {
						seen[b.String()] = true
						alts = append(alts, b)
					}
				}
				continue
			}
			if !seen[a.String()] {
				seen[a.String()] = true
				alts = append(alts, a)
			}
		}
		if len(alts) == 1 {
			return alts[0]
		}
		sort.Slice(alts, func(i, j int) bool { return alts[i].String() < alts[j].String() })
		t.Args = alts
	case OpRes:
		if t.Name == "0" && t.Args[0].Op == OpAssert {
			return t.Args[0].Args[0]
		}
	case OpAssert:
		if !strings.HasSuffix(t.Name, ",ok") {
			return t.Args[0]
		}
	case OpIte:
		if Eq(t.Args[1], t.Args[2]) {
			return t.Args[1]
		}
		if t.Args[0].IsConst("true") {
			return t.Args[1]
		}
		if t.Args[0].IsConst("false") {
			return t.Args[2]
		}
		// a nested choice on the same condition collapses
		if in := t.Args[1]; in.Op == OpIte && Eq(in.Args[0], t.Args[0]) {
			return normalize(&Term{Op: OpIte, Args: []*Term{t.Args[0], in.Args[1], t.Args[2]}, Pos: t.Pos, Typ: t.Typ, Val: t.Val})
		}
		if in := t.Args[2]; in.Op == OpIte && Eq(in.Args[0], t.Args[0]) {
			return normalize(&Term{Op: OpIte, Args: []*Term{t.Args[0], t.Args[1], in.Args[2]}, Pos: t.Pos, Typ: t.Typ, Val: t.Val})
		}
		// short-circuit booleans kept as data: c ? true : x is c || x, and so on
		c, x, y := t.Args[0], t.Args[1], t.Args[2]
		mkb := func(op string, a, b *Term) *Term {
			return normalize(&Term{Op: OpBin, Name: op, Args: []*Term{a, b}, Pos: t.Pos, Typ: t.Typ, Val: t.Val})
		}
		switch {
		case x.IsConst("true"):
			return mkb("||", c, y)
		case y.IsConst("false"):
			return mkb("&&", c, x)
		case x.IsConst("false"):
			return mkb("&&", Not(c), y)
		case y.IsConst("true"):
			return mkb("||", Not(c), x)
		}
	}
	return t
}

func arrayLen(t *Term) (int64, bool) {
	if t == nil || t.Typ == nil {
		return 0, false
	}
	ty := t.Typ
	if p, ok := ty.Underlying().(*types.Pointer); ok {
		ty = p.Elem()
	}
	if a, ok := ty.Underlying().(*types.Array); ok {
		return a.Len(), true
	}
	return 0, false
}

func constInt(t *Term) (int64, bool) {
	t = StripConv(t)
	if t == nil || t.Op != OpConst {
		return 0, false
	}
	var n int64
	if _, err := fmt.Sscanf(t.Name, "%d", &n); err != nil {
		return 0, false
	}
	if fmt.Sprint(n) != t.Name {
		return 0, false
	}
	return n, true
}

// ConstInt exposes constInt.
func ConstInt(t *Term) (int64, bool) { return constInt(t) }

func unquote(s string) (string, error) {
	var out string
	_, err := fmt.Sscanf(s, "%q", &out)
	return out, err
}

// Not negates a boolean term.
func Not(t *Term) *Term { return normalize(&Term{Op: OpUn, Name: "!", Args: []*Term{t}, Pos: t.Pos}) }

// SeqElems returns the elements of a slice value that is a finite literal
// sequence: a full slice of an array literal, or a concatenation of such.
func SeqElems(t *Term) ([]*Term, bool) {
	t = StripConv(t)
	switch t.Op {
	case OpArray:
		return t.Args, true // an array value (a literal ranged by value)
	case OpSlice:
		if len(t.Args) == 3 && t.Args[1].IsConst("") && t.Args[2].IsConst("") {
			a := StripConv(t.Args[0])
			if a.Op == OpArray {
				return a.Args, true
			}
		}
	case OpConcat:
		var out []*Term
		for _, p := range t.Args {
			els, ok := SeqElems(p)
			if !ok {
				return nil, false
			}
			out = append(out, els...)
		}
		return out, true
	}
	return nil, false
}

// Subst rebuilds t with every subterm for which f returns non-nil replaced,
// re-normalising on the way up.
func Subst(t *Term, f func(*Term) *Term) *Term {
	if r := f(t); r != nil {
		return r
	}
	if len(t.Args) == 0 {
		return t
	}
	changed := false
	args := make([]*Term, len(t.Args))
	for i, a := range t.Args {
		args[i] = Subst(a, f)
		if args[i] != a {
			changed = true
		}
	}
	if !changed {
		return t
	}
	return normalize(&Term{Op: t.Op, Name: t.Name, Args: args, Pos: t.Pos, Typ: t.Typ, Val: t.Val, Ctx: t.Ctx})
}

// intTerm: the term is known to be integer-valued.
func intTerm(t *Term) bool {
	t = StripConv(t)
	if t.Op == OpLen || t.Op == OpIter {
		return true
	}
	if t.Typ != nil {
		if b, ok := t.Typ.Underlying().(*types.Basic); ok {
			return b.Info()&types.IsInteger != 0
		}
	}
	return false
}

// nonNegTerm: the term is a length or has an unsigned integer type.
func nonNegTerm(t *Term) bool {
	t = StripConv(t)
	if t.Op == OpLen {
		return true
	}
	if t.Typ != nil {
		if b, ok := t.Typ.Underlying().(*types.Basic); ok {
			return b.Info()&types.IsUnsigned != 0
		}
	}
	return false
}

type seqLenMarker struct{}

// seqLen marks a constant that is the length of a finite literal sequence (a
// table): loops bounded by it are unrolled, loops bounded by an ordinary
// constant are not.
var seqLen = &seqLenMarker{}

// IsSeqLen reports whether t is such a constant.
func IsSeqLen(t *Term) bool {
	t = StripConv(t)
	return t != nil && t.Op == OpConst && t.Ctx == seqLen
}

func stringTerm(t *Term) bool {
	t = StripConv(t)
	if t.Op == OpConst && strings.HasPrefix(t.Name, "\"") {
		return true
	}
	if t.Typ != nil {
		if b, ok := t.Typ.Underlying().(*types.Basic); ok {
			return b.Info()&types.IsString != 0
		}
	}
	if t.Op == OpBin && t.Name == "+" && len(t.Args) == 2 {
		return stringTerm(t.Args[0]) || stringTerm(t.Args[1])
	}
	return false
}
