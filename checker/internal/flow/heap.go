package flow

import (
	"fmt"
	"go/token"
	"go/types"
	"strings"

	"golang.org/x/tools/go/ssa"
)

// A place is written as a chain of OpField / OpIndex steps over a base
// pointer term (new#site, $param, @global, a call result, ...). The base
// pointer doubles as "the object it points to".

type writesKey struct {
	fn  *ssa.Function
	ctx *Ctx
}

// Write is one (potential) write to memory.
type Write struct {
	Base  string
	BaseT *Term
	Path  []string
	Place *Term
	Val   func() *Term
	ValIn func(*Ctx) *Term // context-sensitive value (library-model writes)
	Instr ssa.Instruction
	Fn    *ssa.Function
	Weak  bool   // may-write: cannot kill other writes
	Kind  string // "store", "lib:<callee>", "havoc:<site>"
}

func (w *Write) String() string {
	return fmt.Sprintf("%s %s%s", w.Kind, w.Base, strings.Join(w.Path, ""))
}

// place returns the place a pointer-typed SSA value designates.
func (e *Engine) place(v ssa.Value, ctx *Ctx) *Term {
	switch x := v.(type) {
	case *ssa.FieldAddr:
		return e.mk(OpField, fieldName(x.X.Type(), x.Field), x, e.place(x.X, ctx))
	case *ssa.IndexAddr:
		if _, isPtr := x.X.Type().Underlying().(*types.Pointer); isPtr {
			return e.mk(OpIndex, "", x, e.place(x.X, ctx), e.Eval(x.Index, ctx))
		}
		return e.mk(OpIndex, "", x, e.Eval(x.X, ctx), e.Eval(x.Index, ctx))
	case *ssa.Alloc, *ssa.Global:
		return e.Eval(v, ctx)
	}
	t := e.Eval(v, ctx)
	if t.Op == OpAddr {
		return t.Args[0]
	}
	return t
}

// splitPlace decomposes a place into its base term and path.
func splitPlace(p *Term) (*Term, []string) {
	var path []string
	for {
		switch p.Op {
		case OpField:
			path = append([]string{"." + p.Name}, path...)
			p = p.Args[0]
			continue
		case OpIndex:
			idx := "*"
			if n, ok := constInt(p.Args[1]); ok {
				idx = fmt.Sprint(n)
			}
			path = append([]string{"[" + idx + "]"}, path...)
			p = p.Args[0]
			continue
		case OpAddr:
			p = p.Args[0]
			continue
		}
		return p, path
	}
}

func stepCompatible(a, b string) (compatible, exact bool) {
	if a == b {
		return true, !strings.HasSuffix(a, "[*]")
	}
	if strings.HasPrefix(a, "[") && strings.HasPrefix(b, "[") {
		if a == "[*]" || b == "[*]" {
			return true, false
		}
	}
	return false, false
}

// pathRel: 0 = unrelated, 1 = w is a prefix of (or equal to) l, 2 = l is a
// strict prefix of w. exact is false when an index step is not a constant.
func pathRel(w, l []string) (rel int, exact bool) {
	exact = true
	n := len(w)
	if len(l) < n {
		n = len(l)
	}
	for i := 0; i < n; i++ {
		c, ex := stepCompatible(w[i], l[i])
		if !c {
			return 0, false
		}
		exact = exact && ex
	}
	if len(w) <= len(l) {
		return 1, exact
	}
	return 2, exact
}

// libStoreModel: library functions that write through a pointer argument.
// callee -> (index of written pointer arg, indices of source args)
var libStoreModel = map[string]struct {
	dst  int
	srcs []int
}{
	"encoding/json.Unmarshal":                                 {1, []int{0}},
	"encoding/asn1.Unmarshal":                                 {1, []int{0}},
	"google.golang.org/protobuf/proto.Unmarshal":              {1, []int{0}},
	"google.golang.org/protobuf/encoding/prototext.Unmarshal": {1, []int{0}},
}

// buildWrites computes, once, every write of every repository function with
// places evaluated in the function's unknown context. It proceeds in phases so
// that a place which itself depends on a load sees the simpler writes:
//
//	A: stores and library-model writes whose place needs no load;
//	B: the remaining stores / library-model writes;
//	C: objects that opaque (interface / function-value) calls may overwrite.
//
// Values memoised while the write set was incomplete are dropped afterwards.
func (e *Engine) buildWrites() {
	if e.writesBuilt {
		return
	}
	e.writesBuilt = true
	type pending struct {
		fn    *ssa.Function
		in    ssa.Instruction
		addr  ssa.Value
		val   func() *Term
		valIn func(*Ctx) *Term
		kind  string
		havoc bool
	}
	var curValIn func(*Ctx) *Term
	add := func(fn *ssa.Function, place *Term, val func() *Term, in ssa.Instruction, kind string) {
		base, path := splitPlace(place)
		bases := []*Term{base}
		weak := false
		if base.Op == OpPhi {
			bases = base.Args
			weak = true
		}
		for _, b := range bases {
			bb, pp := splitPlace(b)
			e.allWrites = append(e.allWrites, &Write{Base: bb.String(), BaseT: bb, Path: append(append([]string{}, pp...), path...), Place: place, Val: val, ValIn: curValIn, Instr: in, Fn: fn, Weak: weak, Kind: kind})
		}
	}
	var all []pending
	for _, fn := range e.P.Funcs {
		fn := fn
		for _, b := range fn.Blocks {
			for _, in := range b.Instrs {
				switch x := in.(type) {
				case *ssa.Store:
					st := x
					all = append(all, pending{fn: fn, in: in, addr: st.Addr, kind: "store", val: func() *Term {
						return nil // replaced at load time (context-sensitive)
					}})
				case ssa.CallInstruction:
					com := x.Common()
					if com.IsInvoke() || (com.StaticCallee() == nil && !isBuiltinCall(com)) {
						if !com.IsInvoke() && e.stepParamResolved(fn, com.Value) {
							// a step handed to this helper as a parameter: every caller passes a
							// repository function or function literal, whose own stores are recorded
							continue
						}
						for ai, a := range com.Args {
							if pointerLike(a.Type()) {
								all = append(all, pending{fn: fn, in: in, addr: a, kind: fmt.Sprintf("havoc:%s#%d", e.site(x.Pos()), ai), havoc: true})
							}
						}
						continue
					}
					cal := com.StaticCallee()
					if cal == nil {
						continue
					}
					if m, ok := libStoreModel[cal.String()]; ok && m.dst < len(com.Args) {
						srcArgs := []ssa.Value{}
						for _, si := range m.srcs {
							srcArgs = append(srcArgs, com.Args[si])
						}
						call := x
						name := "decode:" + cal.String()
						all = append(all, pending{fn: fn, in: in, addr: com.Args[m.dst], kind: "lib:" + cal.String(), valIn: func(c *Ctx) *Term {
							var srcs []*Term
							for _, a := range srcArgs {
								srcs = append(srcs, e.Eval(a, c))
							}
							t := e.mk(OpCall, name, nil, srcs...)
							t.Pos = call.Pos()
							return t
						}})
					}
				}
			}
		}
	}
	// phase A
	e.phase = 1
	var later []pending
	for _, p := range all {
		if p.havoc {
			later = append(later, p)
			continue
		}
		before := e.deferCount
		place := e.place(p.addr, e.UnknownCtx(p.fn))
		if e.deferCount != before {
			later = append(later, p)
			continue
		}
		curValIn = p.valIn
		add(p.fn, place, p.val, p.in, p.kind)
		curValIn = nil
	}
	// phase B
	e.phase = 2
	var havocs []pending
	for _, p := range later {
		if p.havoc {
			havocs = append(havocs, p)
			continue
		}
		place := e.place(p.addr, e.UnknownCtx(p.fn))
		curValIn = p.valIn
		add(p.fn, place, p.val, p.in, p.kind)
		curValIn = nil
	}
	// phase C
	e.phase = 3
	for _, p := range havocs {
		at := e.Eval(p.addr, e.UnknownCtx(p.fn))
		pp := p
		e.havoc(at, p.kind, p.in, func(place *Term, val func() *Term, in ssa.Instruction, kind string) {
			add(pp.fn, place, val, in, kind)
		}, 0)
	}
	e.phase = 0
	e.memo = map[evalKey]*Term{}
	e.graphs = map[graphKey]*Graph{}
	e.pathMemo = map[pathKey][]*Alt{}
}

func isBuiltinCall(c *ssa.CallCommon) bool {
	_, ok := c.Value.(*ssa.Builtin)
	return ok
}

func pointerLike(t types.Type) bool {
	switch t.Underlying().(type) {
	case *types.Pointer, *types.Interface:
		return true
	}
	return false
}

// havoc records that the object designated by pointer term p, and objects
// reachable from it through pointer fields written in the repository, may be
// overwritten by the opaque call at site.
func (e *Engine) havoc(p *Term, kind string, in ssa.Instruction, add func(*Term, func() *Term, ssa.Instruction, string), depth int) {
	if depth > 3 {
		return
	}
	if p.Op == OpPhi {
		for _, a := range p.Args {
			e.havoc(a, kind, in, add, depth)
		}
		return
	}
	place := p
	if p.Op == OpAddr {
		place = p.Args[0]
	}
	base, _ := splitPlace(place)
	if base.Op != OpNew {
		return // only objects the repository allocated are tracked
	}
	out := &Term{Op: "out", Name: strings.TrimPrefix(kind, "havoc:"), Args: []*Term{place}, Pos: in.Pos()}
	add(place, func() *Term { return out }, in, kind)
	// follow pointer-typed fields stored into this object
	if place.Op == OpNew {
		for _, w := range append([]*Write{}, e.allWrites...) {
			if w.Base == place.String() && len(w.Path) == 1 && w.Kind == "store" {
				if st, ok := w.Instr.(*ssa.Store); ok {
					v := e.Eval(st.Val, e.UnknownCtx(w.Fn))
					if v.Op == OpNew {
						e.havoc(v, kind, in, add, depth+1)
					}
				}
			}
		}
	}
}

// RetIsFail reports whether ret's last result is an error that is
// syntactically non-nil.
func (e *Engine) RetIsFail(ret *ssa.Return) bool {
	n := len(ret.Results)
	if n == 0 {
		return false
	}
	last := ret.Results[n-1]
	if !isErrorType(last.Type()) {
		return false
	}
	if e.syntacticNonNil(last, 0) {
		return true
	}
	return knownNonNilAt(last, ret.Block())
}

// runsOnlyDeferredBy: every call of fn in the program is a defer statement,
// one of them in function by (so what fn does to by's locals happens only when
// by runs its deferred calls).
func (e *Engine) runsOnlyDeferredBy(fn, by *ssa.Function) bool {
	cs := e.P.Callers[fn]
	if len(cs) == 0 {
		return false
	}
	mine := false
	for _, c := range cs {
		if _, ok := c.(*ssa.Defer); !ok {
			return false
		}
		if c.Parent() == by {
			mine = true
		}
	}
	return mine
}

// afterRunDefers: in follows the point where its function runs deferred calls.
func afterRunDefers(in ssa.Instruction) bool {
	for _, x := range in.Block().Instrs {
		if x == in {
			return false
		}
		if _, ok := x.(*ssa.RunDefers); ok {
			return true
		}
	}
	return false
}

// slotIsPrivate: the address of the local is held only by stores to it, loads
// of it and defer statements (a deferred call runs after every such access).
func slotIsPrivate(al *ssa.Alloc) bool {
	if al.Referrers() == nil {
		return false
	}
	for _, r := range *al.Referrers() {
		switch x := r.(type) {
		case *ssa.UnOp, *ssa.Defer, *ssa.DebugRef:
		case *ssa.Store:
			if x.Addr != ssa.Value(al) {
				return false
			}
		case *ssa.MakeClosure:
			// captured by a function literal that is only deferred and only reads it
			if !deferredReader(x, al) {
				return false
			}
		default:
			return false
		}
	}
	return true
}

// deferredReader: the function literal mc is used only as the operand of
// defer statements, and its captured variable al is only loaded inside it.
func deferredReader(mc *ssa.MakeClosure, al *ssa.Alloc) bool {
	if mc.Referrers() == nil {
		return false
	}
	for _, r := range *mc.Referrers() {
		switch x := r.(type) {
		case *ssa.DebugRef:
		case *ssa.Defer:
			if x.Call.Value != ssa.Value(mc) {
				return false
			}
		default:
			return false
		}
	}
	fn, ok := mc.Fn.(*ssa.Function)
	if !ok {
		return false
	}
	for i, b := range mc.Bindings {
		if b != ssa.Value(al) {
			continue
		}
		if i >= len(fn.FreeVars) || fn.FreeVars[i].Referrers() == nil {
			return false
		}
		for _, r := range *fn.FreeVars[i].Referrers() {
			switch x := r.(type) {
			case *ssa.DebugRef:
			case *ssa.UnOp:
				if x.Op != token.MUL {
					return false
				}
			default:
				return false
			}
		}
	}
	return true
}

// knownNonNilSlot: the load `at` of the local slot al can only be reached
// through the non-nil edge of a test of an earlier load of the same slot, on a
// straight line of single-predecessor blocks without a store to the slot. The
// slot's address may only be held by stores, loads and defer statements (a
// deferred call runs after every such load).
func knownNonNilSlot(al *ssa.Alloc, at *ssa.UnOp) bool {
	if !slotIsPrivate(al) {
		return false
	}
	stored := func(b *ssa.BasicBlock, from, to int) bool {
		for i := from; i < to && i < len(b.Instrs); i++ {
			if st, ok := b.Instrs[i].(*ssa.Store); ok && st.Addr == ssa.Value(al) {
				return true
			}
		}
		return false
	}
	b := at.Block()
	if stored(b, 0, instrIndex(at)) {
		return false
	}
	for d := b; ; {
		id := d.Idom()
		if id == nil || len(d.Preds) != 1 || d.Preds[0] != id {
			return false
		}
		if iff, ok := id.Instrs[len(id.Instrs)-1].(*ssa.If); ok {
			if bo, ok := iff.Cond.(*ssa.BinOp); ok && (bo.Op == token.NEQ || bo.Op == token.EQL) {
				var ld *ssa.UnOp
				for _, pair := range [][2]ssa.Value{{bo.X, bo.Y}, {bo.Y, bo.X}} {
					if u, ok := pair[0].(*ssa.UnOp); ok && u.Op == token.MUL && u.X == ssa.Value(al) && u.Block() == id {
						if c, ok := pair[1].(*ssa.Const); ok && c.IsNil() {
							ld = u
						}
					}
				}
				if ld != nil {
					if stored(id, instrIndex(ld), len(id.Instrs)) {
						return false
					}
					onTrue := id.Succs[0] == d && id.Succs[1] != d
					onFalse := id.Succs[1] == d && id.Succs[0] != d
					return (bo.Op == token.NEQ && onTrue) || (bo.Op == token.EQL && onFalse)
				}
			}
		}
		if stored(id, 0, len(id.Instrs)) {
			return false
		}
		d = id
	}
}

// knownNonNilAt: block b is only reachable through the true edge of a test
// `v != nil` (or the false edge of `v == nil`).
func knownNonNilAt(v ssa.Value, b *ssa.BasicBlock) bool {
	for d := b; d != nil; d = d.Idom() {
		id := d.Idom()
		if id == nil {
			break
		}
		iff, ok := id.Instrs[len(id.Instrs)-1].(*ssa.If)
		if !ok || len(d.Preds) != 1 || d.Preds[0] != id {
			continue
		}
		bo, ok := iff.Cond.(*ssa.BinOp)
		if !ok {
			continue
		}
		var other ssa.Value
		if bo.X == v {
			other = bo.Y
		} else if bo.Y == v {
			other = bo.X
		} else {
			continue
		}
		if c, ok := other.(*ssa.Const); !ok || !c.IsNil() {
			continue
		}
		onTrue := id.Succs[0] == d && id.Succs[1] != d
		if (bo.Op == token.NEQ && onTrue) || (bo.Op == token.EQL && !onTrue && id.Succs[1] == d) {
			return true
		}
	}
	return false
}

func isErrorType(t types.Type) bool {
	return types.Identical(t, types.Universe.Lookup("error").Type())
}

func (e *Engine) syntacticNonNil(v ssa.Value, depth int) bool {
	if depth > 4 {
		return false
	}
	switch x := v.(type) {
	case *ssa.MakeInterface:
		return true
	case *ssa.Call:
		if cal := x.Call.StaticCallee(); cal != nil {
			switch cal.String() {
			case "fmt.Errorf", "errors.New":
				return true
			}
			// an error constructor of the repository: every return of it is a
			// definite (non-nil) error
			if e.P.InRepo(cal) && cal.Blocks != nil && cal.Signature.Results().Len() == 1 && isErrorType(cal.Signature.Results().At(0).Type()) {
				if v, ok := e.errCtor[cal]; ok {
					return v
				}
				if e.errCtor == nil {
					e.errCtor = map[*ssa.Function]bool{}
				}
				e.errCtor[cal] = false // recursion guard
				all, n := true, 0
				for _, b := range cal.Blocks {
					if ret, ok := b.Instrs[len(b.Instrs)-1].(*ssa.Return); ok {
						n++
						if !e.syntacticNonNil(ret.Results[0], depth+1) {
							all = false
						}
					}
				}
				e.errCtor[cal] = all && n > 0
				return all && n > 0
			}
		}
	case *ssa.UnOp:
		if g, ok := x.X.(*ssa.Global); ok && isErrorType(x.Type()) && strings.HasPrefix(g.Name(), "Err") {
			return true
		}
		// a result spilled to its slot because the function has a defer
		// (`*r = v; rundefers; return *r`): the value stored last in the same block
		if al, ok := x.X.(*ssa.Alloc); ok && x.Op == token.MUL {
			blk := x.Block()
			var last *ssa.Store
			for _, in := range blk.Instrs {
				if in == ssa.Instruction(x) {
					break
				}
				if st, ok := in.(*ssa.Store); ok && st.Addr == ssa.Value(al) {
					last = st
				}
			}
			if last != nil {
				return e.syntacticNonNil(last.Val, depth+1)
			}
			// the slot of a named result read back (`err = f(); if err != nil {
			// return err }` where err lives in memory because a deferred call
			// holds its address): non-nil when the path to this load leaves a
			// nil test of the same slot with nothing stored in between
			return knownNonNilSlot(al, x)
		}
	case *ssa.Phi:
		for _, ed := range x.Edges {
			if !e.syntacticNonNil(ed, depth+1) {
				return false
			}
		}
		return true
	}
	return false
}

func instrIndex(in ssa.Instruction) int {
	for i, x := range in.Block().Instrs {
		if x == in {
			return i
		}
	}
	return -1
}

func inCycle(b *ssa.BasicBlock) bool {
	seen := map[*ssa.BasicBlock]bool{}
	stack := append([]*ssa.BasicBlock{}, b.Succs...)
	for len(stack) > 0 {
		x := stack[len(stack)-1]
		stack = stack[:len(stack)-1]
		if x == b {
			return true
		}
		if seen[x] {
			continue
		}
		seen[x] = true
		stack = append(stack, x.Succs...)
	}
	return false
}

func blockReaches(a, b *ssa.BasicBlock) bool {
	if a == b {
		return true
	}
	seen := map[*ssa.BasicBlock]bool{}
	stack := []*ssa.BasicBlock{a}
	for len(stack) > 0 {
		x := stack[len(stack)-1]
		stack = stack[:len(stack)-1]
		if x == b {
			return true
		}
		if seen[x] {
			continue
		}
		seen[x] = true
		stack = append(stack, x.Succs...)
	}
	return false
}

// before reports whether instruction a is executed before b on every path
// on which both are (a's block strictly dominates b's, or same block earlier).
func before(a, b ssa.Instruction) bool {
	if a.Block() == b.Block() {
		return instrIndex(a) < instrIndex(b)
	}
	return a.Block().Dominates(b.Block())
}

// stepParamResolved: v is a function-typed parameter of fn and every call of
// fn in the repository passes a repository function or function literal there.
func (e *Engine) stepParamResolved(fn *ssa.Function, v ssa.Value) bool {
	par, ok := v.(*ssa.Parameter)
	if !ok {
		return false
	}
	pi := -1
	for i, q := range fn.Params {
		if q == par {
			pi = i
		}
	}
	callers := e.P.Callers[fn]
	if pi < 0 || len(callers) == 0 {
		return false
	}
	for _, c := range callers {
		args := c.Common().Args
		if c.Common().StaticCallee() != fn || pi >= len(args) {
			return false
		}
		a := args[pi]
		for {
			if ct, ok := a.(*ssa.ChangeType); ok {
				a = ct.X
				continue
			}
			break
		}
		var t *ssa.Function
		switch x := a.(type) {
		case *ssa.Function:
			t = x
		case *ssa.MakeClosure:
			t, _ = x.Fn.(*ssa.Function)
		}
		if t == nil || !e.P.InRepo(t) || t.Blocks == nil {
			return false
		}
	}
	return true
}

// repoRecovers: some repository function calls the builtin recover.
func (e *Engine) repoRecovers() bool {
	if e.recovers == 0 {
		e.recovers = 1
		for _, fn := range e.P.Funcs {
			for _, b := range fn.Blocks {
				for _, in := range b.Instrs {
					if c, ok := in.(ssa.CallInstruction); ok {
						if bi, ok := c.Common().Value.(*ssa.Builtin); ok && bi.Name() == "recover" {
							e.recovers = 2
						}
					}
				}
			}
		}
	}
	return e.recovers == 2
}

func (e *Engine) dominatesSuccessExits(in ssa.Instruction) bool {
	fn := in.Parent()
	any := false
	for _, b := range fn.Blocks {
		ret, ok := b.Instrs[len(b.Instrs)-1].(*ssa.Return)
		if !ok || e.RetIsFail(ret) || (b == fn.Recover && !e.repoRecovers()) {
			// (the recover block returns the named results after a recovered
			// panic: dead while no repository function calls recover)
			continue
		}
		any = true
		if !(in.Block() == b || in.Block().Dominates(b)) {
			return false
		}
	}
	return any
}

// load returns the value stored at place as seen by the instruction `at`
// (evaluated in ctx).
func (e *Engine) load(place *Term, ctx *Ctx, at ssa.Value) *Term {
	if place.Op == OpPhi {
		var alts []*Term
		for _, a := range place.Args {
			alts = append(alts, e.load(a, ctx, at))
		}
		return e.mk(OpPhi, "", at, alts...)
	}
	if place.Op == OpIte {
		return e.mk(OpIte, "", at, place.Args[0], e.load(place.Args[1], ctx, at), e.load(place.Args[2], ctx, at))
	}
	for p := place; p != nil; {
		if p.Ctx == initialValue {
			return place // the value the caller passed in, untouched by the library
		}
		if (p.Op == OpField || p.Op == OpIndex || p.Op == OpAddr) && len(p.Args) > 0 {
			p = p.Args[0]
			continue
		}
		break
	}
	base, path := splitPlace(place)
	if base.Op == OpAddrG && len(path) == 0 {
		return e.loadGlobal(base, at, ctx)
	}
	if (base.Op == OpPhi || base.Op == OpIte) && len(path) > 0 {
		// distribute the path over the alternatives of the base pointer
		rebuild := func(b *Term) *Term {
			return replaceBase(place, base, b)
		}
		if base.Op == OpIte {
			return e.mk(OpIte, "", at, base.Args[0], e.load(rebuild(base.Args[1]), ctx, at), e.load(rebuild(base.Args[2]), ctx, at))
		}
		var alts []*Term
		for _, a := range base.Args {
			alts = append(alts, e.load(rebuild(a), ctx, at))
		}
		return e.mk(OpPhi, "", at, alts...)
	}
	var atInstr ssa.Instruction
	if tv, ok := at.(typedValue); ok {
		if tv.Value != nil {
			atInstr, _ = tv.Value.(ssa.Instruction)
		}
	} else if at != nil {
		atInstr, _ = at.(ssa.Instruction)
	}
	// an element of a local array literal selected by a loop counter (`for _, row :=
	// range [...]T{…}`): keep the table, so that the rows stay correlated and the loop
	// can be unrolled — index(array(row0, …), i).rest
	if base.Op == OpNew && len(path) > 0 && path[0] == "[*]" && isArrayObj(base) {
		if tbl := e.localArrayLiteral(base, ctx, at); tbl != nil {
			// the symbolic index of the place: first Index step above the base
			var idx *Term
			for p := place; p != nil && idx == nil; {
				switch p.Op {
				case OpIndex:
					if b2, _ := splitPlace(p.Args[0]); b2 == base && StripConv(p.Args[0]).Op != OpIndex && StripConv(p.Args[0]).Op != OpField {
						idx = p.Args[1]
					}
					p = p.Args[0]
				case OpField, OpAddr:
					p = p.Args[0]
				default:
					p = nil
				}
			}
			if idx != nil {
				v := e.mk(OpIndex, "", nil, tbl, idx)
				for _, step := range path[1:] {
					if strings.HasPrefix(step, ".") {
						v = e.fieldOf(v, step[1:], at, ctx)
					} else if step != "[*]" {
						v = e.mk(OpIndex, "", nil, v, C(strings.Trim(step, "[]")))
					} else {
						v = nil
						break
					}
				}
				if v != nil {
					return v
				}
			}
		}
	}
	bs := base.String()
	var cands []cand
	var allocCtx *Ctx
	if c, ok := base.Ctx.(*Ctx); ok {
		allocCtx = c
	}
	if !ctx.Unknown {
		e.active = append(e.active, ctx)
		defer func() { e.active = e.active[:len(e.active)-1] }()
	}
	if e.phase == 1 {
		e.deferCount++
		return e.mk(OpUnknown, "deferred", at)
	}
	e.buildWrites()
	{
		for _, w := range e.allWrites {
			wpath := w.Path
			if w.Base != bs {
				ab, ap := e.aliasOf(w.Base, ctx)
				if ab != bs {
					continue
				}
				wpath = append(append([]string{}, ap...), w.Path...)
			}
			rel, ex := pathRel(wpath, path)
			if rel == 0 {
				continue
			}
			if atInstr != nil && w.Fn == atInstr.Parent() {
				// same function: the write must be able to reach the load
				if w.Instr.Block() == atInstr.Block() {
					if instrIndex(w.Instr) > instrIndex(atInstr) && !inCycle(atInstr.Block()) {
						continue
					}
				} else if !blockReaches(w.Instr.Block(), atInstr.Block()) {
					continue
				}
			}
			if atInstr != nil && w.Fn != atInstr.Parent() && e.runsOnlyDeferredBy(w.Fn, atInstr.Parent()) && !afterRunDefers(atInstr) {
				// a write made by a deferred call has not happened before the
				// deferring function runs its defers
				continue
			}
			cands = append(cands, cand{w, rel, ex, wpath})
		}
	}
	// struct-valued load with field-level writes: assemble per field
	partial := false
	for _, c := range cands {
		if c.rel == 2 {
			partial = true
		}
	}
	if partial && at != nil {
		ty := at.Type()
		if u, ok := at.(*ssa.UnOp); ok {
			ty = u.Type()
		}
		if dt := derefType(base); dt != nil && len(path) == 0 {
			ty = dt
		}
		if st, ok := ty.Underlying().(*types.Struct); ok {
			var fis []*Term
			for i := 0; i < st.NumFields(); i++ {
				f := st.Field(i)
				sub := &Term{Op: OpField, Name: f.Name(), Args: []*Term{place}}
				fv := e.loadTyped(sub, ctx, atInstr, f.Type())
				fis = append(fis, &Term{Op: OpFInit, Name: f.Name(), Args: []*Term{fv}})
			}
			return e.mk(OpStruct, typeName(ty), at, fis...)
		}
		if arr, ok := ty.Underlying().(*types.Array); ok && arr.Len() <= 64 {
			var els []*Term
			for i := int64(0); i < arr.Len(); i++ {
				sub := &Term{Op: OpIndex, Args: []*Term{place, C(fmt.Sprint(i))}}
				els = append(els, e.loadTyped(sub, ctx, atInstr, arr.Elem()))
			}
			t := e.mk(OpArray, "", at, els...)
			t.Typ = ty
			return t
		}
	}
	// decoders (json / asn1 / proto Unmarshal) merge into their destination:
	// members absent from the input keep the destination's old value. Such a
	// write overwrites only when nothing was written to the destination before.
	merging := map[*Write]bool{}
	for _, c := range cands {
		if !strings.HasPrefix(c.w.Kind, "lib:") {
			continue
		}
		for _, k := range cands {
			if k.w == c.w {
				continue
			}
			if k.w.Fn != c.w.Fn || before(k.w.Instr, c.w.Instr) || inCycle(c.w.Instr.Block()) {
				merging[c.w] = true
				break
			}
		}
	}
	// kill analysis
	visible := []cand{}
	must := false
	for _, c := range cands {
		if c.rel != 1 {
			continue
		}
		killed := false
		for _, k := range cands {
			if k.w == c.w || k.rel != 1 || !k.ex || k.w.Weak || k.w.Fn != c.w.Fn || merging[k.w] {
				continue
			}
			if !before(c.w.Instr, k.w.Instr) || inCycle(c.w.Instr.Block()) || inCycle(k.w.Instr.Block()) {
				continue
			}
			if atInstr != nil && k.w.Fn == atInstr.Parent() {
				if before(k.w.Instr, atInstr) {
					killed = true
				}
			} else if e.dominatesSuccessExits(k.w.Instr) {
				killed = true
			}
			if killed {
				break
			}
		}
		if !killed && strings.HasPrefix(c.w.Kind, "havoc") && atInstr != nil && atInstr.Parent() != c.w.Fn {
			// an environment call made, on the load's call string, after the call that
			// leads to the load has not happened yet
			for cc := ctx; cc != nil; cc = cc.Parent {
				if cc.Call != nil && cc.Call.Parent() == c.w.Fn {
					if before(cc.Call, c.w.Instr) && !inCycle(c.w.Instr.Block()) {
						killed = true
					}
					break
				}
			}
		}
		if !killed && strings.HasPrefix(c.w.Kind, "havoc") && atInstr != nil && atInstr.Parent() != c.w.Fn {
			// an environment call made inside a callee (a function literal) that the
			// load's function calls only after the load has not happened yet
			sites, all := 0, true
			for _, b := range atInstr.Parent().Blocks {
				for _, in := range b.Instrs {
					ci, ok := in.(ssa.CallInstruction)
					if !ok {
						continue
					}
					var cal *ssa.Function
					if sc := ci.Common().StaticCallee(); sc != nil {
						cal = sc
					} else if mc, ok := ci.Common().Value.(*ssa.MakeClosure); ok {
						cal, _ = mc.Fn.(*ssa.Function)
					}
					if cal != c.w.Fn {
						continue
					}
					sites++
					if _, isCall := in.(*ssa.Call); !isCall || !before(atInstr, in) || inCycle(in.Block()) {
						all = false
					}
				}
			}
			if sites > 0 && all && len(e.P.Callers[c.w.Fn]) <= sites {
				if c.w.Fn.Parent() == atInstr.Parent() {
					killed = true // a function literal of the load's function, called in place
				} else if c.w.Fn.Parent() == nil && len(e.P.Callers[c.w.Fn]) == sites {
					if ss, complete := e.stepSites(c.w.Fn); complete && len(ss) == 0 {
						killed = true // a helper all of whose calls are these
					}
				}
			}
		}
		if !killed && isInitStore(c.w) {
			// an initialising store of a fresh object is overwritten by a later
			// environment call that may write the whole object (the device filling a
			// request header), when the load happens after that call — in the same
			// function or, on the load's call string, in a function called after it
			for _, k := range cands {
				if k.w == c.w || k.rel != 1 || !strings.HasPrefix(k.w.Kind, "havoc") || inCycle(k.w.Instr.Block()) {
					continue
				}
				if e.loadIsAfter(k.w.Instr, atInstr, ctx) {
					killed = true
					break
				}
			}
		}
		if killed {
			continue
		}
		visible = append(visible, c)
		if c.ex && !c.w.Weak && !merging[c.w] && isInitStore(c.w) && (atInstr == nil || c.w.Fn != atInstr.Parent() || before(c.w.Instr, atInstr)) {
			must = true
		}
		if c.ex && !c.w.Weak && !merging[c.w] {
			if atInstr != nil && c.w.Fn == atInstr.Parent() {
				if before(c.w.Instr, atInstr) {
					must = true
				}
			} else if e.dominatesSuccessExits(c.w.Instr) {
				must = true
			} else if atInstr != nil && e.loadIsAfter(c.w.Instr, atInstr, ctx) {
				// the load sits in a callee entered, on this call string, after the write
				must = true
			}
		}
	}
	var alts []*Term
	for _, c := range visible {
		var v *Term
		if st, ok := c.w.Instr.(*ssa.Store); ok && c.w.Kind == "store" {
			v = e.Eval(st.Val, e.ctxFor(c.w.Fn, ctx, allocCtx))
		} else if c.w.ValIn != nil {
			v = c.w.ValIn(e.ctxFor(c.w.Fn, ctx, allocCtx))
		} else {
			v = c.w.Val()
		}
		// apply the remaining path
		rest := path[len(c.path):]
		for _, step := range rest {
			if strings.HasPrefix(step, ".") {
				v = e.fieldOf(v, step[1:], at, ctx)
			} else {
				v = e.mk(OpIndex, "", nil, v, C(strings.Trim(step, "[]")))
			}
		}
		alts = append(alts, v)
	}
	if !must && len(visible) == 1 && base.Op != OpNew && len(visible[0].path) == len(path) {
		// `if p.f == nil { p.f = fresh }`: the old value survives only when it was non-nil
		if st, ok := visible[0].w.Instr.(*ssa.Store); ok && guardedByNilTestOf(st) {
			v := e.Eval(st.Val, e.ctxFor(visible[0].w.Fn, ctx, allocCtx))
			old := &Term{Op: place.Op, Name: place.Name, Args: place.Args, Pos: place.Pos, Typ: place.Typ, Val: place.Val, Ctx: initialValue}
			return e.mk(OpIte, "", at, e.mk(OpBin, "==", nil, place, C("nil")), v, old)
		}
	}
	if len(visible) == 2 && base.Op == OpNew && len(path) == 0 {
		// a captured local defaulted when nil: `v := x; if v == nil { v = fresh }`
		// (a variable shared with a function literal lives in memory, not in SSA):
		// the value after the if-statement is ite(x == nil, fresh, x)
		for gi := 0; gi < 2; gi++ {
			gw, iw := visible[gi].w, visible[1-gi].w
			gst, ok1 := gw.Instr.(*ssa.Store)
			ist, ok2 := iw.Instr.(*ssa.Store)
			if !ok1 || !ok2 || gw.Kind != "store" || iw.Kind != "store" || gw.Fn != iw.Fn || !guardedByNilTestOf(gst) || inCycle(gst.Block()) || inCycle(ist.Block()) {
				continue
			}
			test := gst.Block().Preds[0]
			if !before(ist, test.Instrs[len(test.Instrs)-1]) {
				continue
			}
			if atInstr != nil && atInstr.Parent() == gw.Fn && !(test.Dominates(atInstr.Block()) && atInstr.Block() != gst.Block() && atInstr.Block() != test) {
				continue
			}
			cx := e.ctxFor(gw.Fn, ctx, allocCtx)
			init := e.Eval(ist.Val, cx)
			return e.mk(OpIte, "", at, e.mk(OpBin, "==", nil, init, C("nil")), e.Eval(gst.Val, cx), init)
		}
	}
	if !must {
		if base.Op == OpNew && len(visible) == 0 && isArrayObj(place) {
			// contents of an array inside a repository-allocated object that
			// no visible store writes whole: keep the place's identity
			alts = append(alts, &Term{Op: OpDeref, Args: []*Term{place}, Typ: derefType(place)})
		} else if base.Op == OpNew && len(cands) == 0 && len(path) == 0 && isArrayObj(base) {
			// contents of a repository-allocated array that no store writes
			// whole: keep the buffer's identity (element writes via copy /
			// indexed stores are the layout and effects engines' business)
			alts = append(alts, &Term{Op: OpDeref, Args: []*Term{base}, Typ: derefType(base)})
		} else if base.Op == OpNew {
			alts = append(alts, zeroTerm(at))
		} else {
			alts = append(alts, place)
		}
	}
	if len(alts) == 0 {
		return place
	}
	return e.mk(OpPhi, "", at, alts...)
}

// replaceBase rebuilds place with its base term replaced.
func replaceBase(place, oldBase, newBase *Term) *Term {
	if place == oldBase {
		return newBase
	}
	switch place.Op {
	case OpField, OpIndex, OpAddr:
		args := append([]*Term{}, place.Args...)
		args[0] = replaceBase(place.Args[0], oldBase, newBase)
		return &Term{Op: place.Op, Name: place.Name, Args: args, Pos: place.Pos, Typ: place.Typ, Val: place.Val}
	}
	return place
}

func typeName(t types.Type) string {
	return strings.ReplaceAll(types.TypeString(t, nil), "github.com/google/go-tdx-guest/", "")
}

type typedValue struct {
	ssa.Value
	ty types.Type
}

func (t typedValue) Type() types.Type { return t.ty }

func (t typedValue) Pos() token.Pos {
	if t.Value == nil {
		return token.NoPos
	}
	return t.Value.Pos()
}

func (e *Engine) loadTyped(place *Term, ctx *Ctx, at ssa.Instruction, ty types.Type) *Term {
	var v ssa.Value
	if at != nil {
		if av, ok := at.(ssa.Value); ok {
			v = typedValue{av, ty}
		}
	}
	return e.load(place, ctx, v)
}

func zeroTerm(at ssa.Value) *Term {
	t := &Term{Op: OpConst, Name: "zero"}
	if at == nil {
		return t
	}
	t.Typ = at.Type()
	switch u := at.Type().Underlying().(type) {
	case *types.Pointer, *types.Slice, *types.Map, *types.Interface, *types.Chan, *types.Signature:
		t.Name = "nil"
	case *types.Basic:
		switch {
		case u.Info()&types.IsNumeric != 0:
			t.Name = "0"
		case u.Info()&types.IsString != 0:
			t.Name = `""`
		case u.Info()&types.IsBoolean != 0:
			t.Name = "false"
		}
	}
	return t
}

// loadGlobal: the value of a package-level variable. A variable with exactly
// one store, located in a package initialiser, has that value; otherwise it
// is the symbolic global.
func (e *Engine) loadGlobal(addr *Term, at ssa.Value, ctx *Ctx) *Term {
	g, _ := addr.Val.(*ssa.Global)
	sym := e.mk(OpGlobal, addr.Name, at)
	if g == nil {
		return sym
	}
	sts := e.P.GlobalSt[g]
	if len(sts) != 1 {
		return sym
	}
	fn := sts[0].Parent()
	if fn.Name() != "init" && !strings.HasPrefix(fn.Name(), "init#") {
		return sym
	}
	if _, isConst := sts[0].Val.(*ssa.Const); isConst {
		return e.Eval(sts[0].Val, e.UnknownCtx(fn))
	}
	// keep the symbol but remember the initialiser
	init := e.Eval(sts[0].Val, e.UnknownCtx(fn))
	return &Term{Op: OpGlobal, Name: addr.Name, Args: []*Term{init}, Val: at, Pos: sts[0].Pos(), Typ: g.Type().Underlying().(*types.Pointer).Elem()}
}

// Object expands a pointer to a repository-allocated struct object into a
// struct term of its current field values as seen from ctx (at == nil: all
// writes visible).
func (e *Engine) Object(t *Term, ctx *Ctx) *Term {
	t = StripConv(t)
	switch t.Op {
	case OpPhi, OpIte:
		args := make([]*Term, len(t.Args))
		for i, a := range t.Args {
			if t.Op == OpIte && i == 0 {
				args[i] = a
				continue
			}
			args[i] = e.Object(a, ctx)
		}
		return e.mk(t.Op, t.Name, nil, args...)
	case OpNew:
	default:
		return t
	}
	ty := t.Typ
	if ty == nil {
		return t
	}
	if p, ok := ty.Underlying().(*types.Pointer); ok {
		ty = p.Elem()
	}
	st, ok := ty.Underlying().(*types.Struct)
	if !ok {
		return e.load(t, ctx, nil)
	}
	var fis []*Term
	for i := 0; i < st.NumFields(); i++ {
		f := st.Field(i)
		sub := &Term{Op: OpField, Name: f.Name(), Args: []*Term{t}}
		fv := e.load(sub, ctx, typedValue{nil, f.Type()})
		fis = append(fis, &Term{Op: OpFInit, Name: f.Name(), Args: []*Term{fv}})
	}
	return e.mk(OpStruct, typeName(ty), nil, fis...)
}

// IsZeroBuffer reports whether t is a fresh make([]T, n) that is never
// written: its only uses are as the appended operand of append or as a
// source operand.
func (e *Engine) IsZeroBuffer(t *Term) bool {
	t = StripConv(t)
	if t.Op != OpMake {
		return false
	}
	mk, ok := t.Val.(*ssa.MakeSlice)
	if !ok || mk.Referrers() == nil {
		return false
	}
	// no collected write (store, copy, decoder, environment call) targets it
	e.buildWrites()
	ts := t.String()
	for _, w := range e.allWrites {
		if w.Base == ts {
			return false
		}
	}
	// and every use of the value is a read: source operand of append, len,
	// re-slicing, an element of an argument list, an argument of a repository
	// function (whose own writes are among the collected ones) or of a library
	// function that only reads
	seen := map[ssa.Value]bool{}
	var readOnly func(v ssa.Value) bool
	readOnly = func(v ssa.Value) bool {
		if seen[v] || v.Referrers() == nil {
			return true
		}
		seen[v] = true
		for _, ref := range *v.Referrers() {
			switch x := ref.(type) {
			case *ssa.DebugRef:
			case *ssa.Slice:
				if !readOnly(x) {
					return false
				}
			case *ssa.Phi:
				if !readOnly(x) {
					return false
				}
			case *ssa.Store:
				// the slice value placed into a local array (an argument list)
				ia, ok := x.Addr.(*ssa.IndexAddr)
				if !ok || x.Val != v {
					return false
				}
				if _, ok := ia.X.(*ssa.Alloc); !ok {
					return false
				}
			case *ssa.Call:
				if isBuiltin(x, "len") || isBuiltin(x, "cap") {
					continue
				}
				if isBuiltin(x, "append") {
					if len(x.Call.Args) == 2 && x.Call.Args[1] == v && x.Call.Args[0] != v {
						continue
					}
					return false
				}
				if isBuiltin(x, "copy") {
					if len(x.Call.Args) == 2 && x.Call.Args[1] == v && x.Call.Args[0] != v {
						continue
					}
					return false
				}
				cal := x.Call.StaticCallee()
				if cal == nil {
					return false
				}
				if e.P.InRepo(cal) {
					continue
				}
				switch cal.String() {
				case "bytes.Equal", "bytes.Compare", "encoding/hex.EncodeToString", "crypto/sha256.Sum256", "crypto/sha512.Sum384":
					continue
				}
				return false
			default:
				return false
			}
		}
		return true
	}
	return readOnly(mk)
}

func isArrayObj(t *Term) bool {
	ty := derefType(t)
	if ty == nil {
		return false
	}
	_, ok := ty.Underlying().(*types.Array)
	return ok
}

func derefType(t *Term) types.Type {
	if t == nil || t.Typ == nil {
		return nil
	}
	if p, ok := t.Typ.Underlying().(*types.Pointer); ok {
		return p.Elem()
	}
	return nil
}

// isInitStore reports whether w initialises a field of a freshly allocated
// object before the object can be seen by anyone else: the store is in the
// allocating block, after the allocation, and the pointer has not yet been
// passed, stored or returned. Such a store has happened whenever the object
// is reachable, so the field's zero value is never observed.
func isInitStore(w *Write) bool {
	if w.BaseT == nil || w.BaseT.Op != OpNew {
		return false
	}
	al, ok := w.BaseT.Val.(*ssa.Alloc)
	if !ok || w.Instr.Block() != al.Block() || w.Fn != al.Parent() {
		return false
	}
	ia, iw := instrIndex(al), instrIndex(w.Instr)
	if iw <= ia {
		return false
	}
	for _, in := range al.Block().Instrs[ia+1 : iw] {
		switch x := in.(type) {
		case ssa.CallInstruction:
			for _, a := range x.Common().Args {
				if a == ssa.Value(al) {
					return false
				}
			}
			if x.Common().Value == ssa.Value(al) {
				return false
			}
		case *ssa.Store:
			if x.Val == ssa.Value(al) {
				return false
			}
		case *ssa.MakeInterface:
			if x.X == ssa.Value(al) {
				return false
			}
		case *ssa.Return:
			return false
		}
	}
	return true
}

type cand struct {
	w    *Write
	rel  int
	ex   bool
	path []string
}

type initialMarker struct{}

// initialValue marks a place term that stands for the value the place held
// before any library write (the caller's value).
var initialValue = &initialMarker{}

// guardedByNilTestOf: the store `*addr = v` sits in a block entered only
// through the true edge of `*addr == nil` (the same address expression).
func guardedByNilTestOf(st *ssa.Store) bool {
	b := st.Block()
	if len(b.Preds) != 1 {
		return false
	}
	p := b.Preds[0]
	iff, ok := p.Instrs[len(p.Instrs)-1].(*ssa.If)
	if !ok || p.Succs[0] != b {
		return false
	}
	bo, ok := iff.Cond.(*ssa.BinOp)
	if !ok || bo.Op != token.EQL {
		return false
	}
	x, y := bo.X, bo.Y
	if c, ok := x.(*ssa.Const); ok && c.IsNil() {
		x, y = y, x // nil == *addr
	}
	c, ok := y.(*ssa.Const)
	if !ok || !c.IsNil() {
		return false
	}
	ld, ok := x.(*ssa.UnOp)
	if !ok || ld.Op != token.MUL {
		return false
	}
	return sameAddr(ld.X, st.Addr)
}

func sameAddr(a, b ssa.Value) bool {
	if a == b {
		return true
	}
	fa, ok1 := a.(*ssa.FieldAddr)
	fb, ok2 := b.(*ssa.FieldAddr)
	if ok1 && ok2 {
		return fa.Field == fb.Field && sameAddr(fa.X, fb.X)
	}
	// two reads of a variable that lives in a cell because a function literal
	// captures it, and that is assigned exactly once (a parameter, a := local)
	ua, ok1 := a.(*ssa.UnOp)
	ub, ok2 := b.(*ssa.UnOp)
	if ok1 && ok2 && ua.Op == token.MUL && ub.Op == token.MUL && ua.X == ub.X {
		if al, ok := ua.X.(*ssa.Alloc); ok && storedOnce(al) {
			return true
		}
	}
	return false
}

// storedOnce: the cell has exactly one store in its function and function
// literals capturing it only read it.
func storedOnce(al *ssa.Alloc) bool {
	if al.Referrers() == nil {
		return false
	}
	n := 0
	for _, r := range *al.Referrers() {
		switch x := r.(type) {
		case *ssa.UnOp, *ssa.DebugRef:
		case *ssa.Store:
			if x.Addr != ssa.Value(al) {
				return false
			}
			n++
		case *ssa.MakeClosure:
			fn, ok := x.Fn.(*ssa.Function)
			if !ok {
				return false
			}
			for i, b := range x.Bindings {
				if b != ssa.Value(al) {
					continue
				}
				if i >= len(fn.FreeVars) || fn.FreeVars[i].Referrers() == nil {
					return false
				}
				for _, fr := range *fn.FreeVars[i].Referrers() {
					switch y := fr.(type) {
					case *ssa.DebugRef:
					case *ssa.UnOp:
						if y.Op != token.MUL {
							return false
						}
					default:
						return false
					}
				}
			}
		default:
			return false
		}
	}
	return n == 1
}

// loadIsAfter: the load at atInstr (evaluated on call string ctx) happens after
// instruction w: in the same function with w before it, or inside a callee
// whose call instruction, somewhere on the call string, follows w.
func (e *Engine) loadIsAfter(w ssa.Instruction, atInstr ssa.Instruction, ctx *Ctx) bool {
	if atInstr != nil && atInstr.Parent() == w.Parent() {
		return before(w, atInstr)
	}
	for c := ctx; c != nil; c = c.Parent {
		if c.Call != nil && c.Call.Parent() == w.Parent() {
			return before(w, c.Call)
		}
	}
	// w sits in a function (or function literal) that the load's function calls
	// before the load, and w is executed on every successful run of that callee
	// (the same one level up the call string: a sibling callee that ran before
	// the call leading to the load)
	if atInstr != nil && e.dominatesSuccessExits(w) {
		calledBefore := func(point ssa.Instruction) bool {
			for _, b := range point.Parent().Blocks {
				for _, in := range b.Instrs {
					c, ok := in.(*ssa.Call)
					if !ok {
						continue
					}
					var cal *ssa.Function
					if sc := c.Common().StaticCallee(); sc != nil {
						cal = sc
					} else if mc, ok := c.Common().Value.(*ssa.MakeClosure); ok {
						cal, _ = mc.Fn.(*ssa.Function)
					}
					if cal == w.Parent() && before(in, point) {
						return true
					}
				}
			}
			return false
		}
		if calledBefore(atInstr) {
			return true
		}
		for c := ctx; c != nil; c = c.Parent {
			if c.Call != nil && !c.Unknown {
				if ci, ok := c.Call.(ssa.Instruction); ok && calledBefore(ci) {
					return true
				}
			}
		}
	}
	return false
}

// localArrayLiteral: base is a local array object (at most 16 elements) all of
// whose writes are constant-index stores in its allocating block (a composite
// literal). Returns slice(array(elem0, …)) of the element values, or nil.
func (e *Engine) localArrayLiteral(base *Term, ctx *Ctx, at ssa.Value) *Term {
	al, ok := base.Val.(*ssa.Alloc)
	if !ok {
		return nil
	}
	arr, ok := derefType(base).Underlying().(*types.Array)
	if !ok || arr.Len() == 0 || arr.Len() > 16 {
		return nil
	}
	e.buildWrites()
	bs := base.String()
	seen := map[string]bool{}
	for _, w := range e.allWrites {
		if w.Base != bs {
			continue
		}
		if len(w.Path) == 0 || w.Path[0] == "[*]" || w.Kind != "store" || w.Instr.Block() != al.Block() || w.Fn != al.Parent() {
			return nil
		}
		seen[w.Path[0]] = true
	}
	if len(seen) == 0 {
		return nil
	}
	var els []*Term
	for k := int64(0); k < arr.Len(); k++ {
		sub := &Term{Op: OpIndex, Args: []*Term{base, C(fmt.Sprint(k))}}
		var ai ssa.Instruction
		if at != nil {
			ai, _ = at.(ssa.Instruction)
			if tv, ok := at.(typedValue); ok && tv.Value != nil {
				ai, _ = tv.Value.(ssa.Instruction)
			}
		}
		els = append(els, e.loadTyped(sub, ctx, ai, arr.Elem()))
	}
	a := e.mk(OpArray, "", nil, els...)
	a.Typ = arr
	return e.mk(OpSlice, fmt.Sprintf("arr%d", arr.Len()), nil, a, C(""), C(""))
}
