package flow

import (
	"golang.org/x/tools/go/ssa"
)

// Graph is the control-flow graph of one function after pruning: edges that
// contradict the current assumptions are removed, and a block that calls a
// function which never returns has no successors.
type Graph struct {
	Fn     *ssa.Function
	Succ   [][]int // by block index
	Pred   [][]int
	Reach  []bool // reachable from entry
	idom   []int
	order  []int // reverse postorder of reachable blocks
	rpoNum []int
	Loops  []*Loop
	loopOf []*Loop // innermost loop per block (nil if none)
	// CutAt[b] >= 0: the block is cut after instruction index CutAt[b]
	// (call to a no-return function); such a block has no successors.
	CutAt []int
}

// Loop is a natural loop.
type Loop struct {
	Head    int
	Latches []int
	Body    map[int]bool // includes Head
	ID      string
}

func newGraph(fn *ssa.Function, keep func(b *ssa.BasicBlock, succIdx int) bool, noret func(*ssa.Function) bool) *Graph {
	n := len(fn.Blocks)
	g := &Graph{Fn: fn, Succ: make([][]int, n), Pred: make([][]int, n), Reach: make([]bool, n), CutAt: make([]int, n)}
	for _, b := range fn.Blocks {
		g.CutAt[b.Index] = -1
		cut := false
		for i, in := range b.Instrs {
			if c, ok := in.(ssa.CallInstruction); ok {
				if _, isDefer := in.(*ssa.Defer); isDefer {
					continue
				}
				if _, isGo := in.(*ssa.Go); isGo {
					continue
				}
				if cal := c.Common().StaticCallee(); cal != nil && noret(cal) {
					g.CutAt[b.Index] = i
					cut = true
					break
				}
			}
			if _, ok := in.(*ssa.Panic); ok {
				cut = true
			}
		}
		if cut {
			continue
		}
		for i, s := range b.Succs {
			if keep == nil || keep(b, i) {
				g.Succ[b.Index] = append(g.Succ[b.Index], s.Index)
			}
		}
	}
	// reachability + predecessor lists
	var dfs func(int)
	var post []int
	dfs = func(b int) {
		g.Reach[b] = true
		for _, s := range g.Succ[b] {
			if !g.Reach[s] {
				dfs(s)
			}
		}
		post = append(post, b)
	}
	dfs(0)
	for b := 0; b < n; b++ {
		if !g.Reach[b] {
			g.Succ[b] = nil
			continue
		}
		for _, s := range g.Succ[b] {
			g.Pred[s] = append(g.Pred[s], b)
		}
	}
	g.order = make([]int, 0, len(post))
	for i := len(post) - 1; i >= 0; i-- {
		g.order = append(g.order, post[i])
	}
	g.rpoNum = make([]int, n)
	for i, b := range g.order {
		g.rpoNum[b] = i
	}
	g.computeDom()
	g.computeLoops()
	return g
}

// computeDom: Cooper-Harvey-Kennedy iterative dominators.
func (g *Graph) computeDom() {
	n := len(g.Succ)
	g.idom = make([]int, n)
	for i := range g.idom {
		g.idom[i] = -1
	}
	g.idom[0] = 0
	changed := true
	for changed {
		changed = false
		for _, b := range g.order[1:] {
			newIdom := -1
			for _, p := range g.Pred[b] {
				if g.idom[p] == -1 {
					continue
				}
				if newIdom == -1 {
					newIdom = p
				} else {
					newIdom = g.intersect(p, newIdom)
				}
			}
			if newIdom != g.idom[b] {
				g.idom[b] = newIdom
				changed = true
			}
		}
	}
}

func (g *Graph) intersect(a, b int) int {
	for a != b {
		for g.rpoNum[a] > g.rpoNum[b] {
			a = g.idom[a]
		}
		for g.rpoNum[b] > g.rpoNum[a] {
			b = g.idom[b]
		}
	}
	return a
}

// Dominates reports whether block a dominates block b (reflexive).
func (g *Graph) Dominates(a, b int) bool {
	if !g.Reach[a] || !g.Reach[b] {
		return false
	}
	for {
		if a == b {
			return true
		}
		if b == 0 {
			return false
		}
		b = g.idom[b]
	}
}

// Dominators returns the dominators of b from the entry down to b itself.
func (g *Graph) Dominators(b int) []int {
	var ds []int
	for {
		ds = append(ds, b)
		if b == 0 {
			break
		}
		b = g.idom[b]
		if b < 0 {
			break // not reachable in this (pruned) graph
		}
	}
	for i, j := 0, len(ds)-1; i < j; i, j = i+1, j-1 {
		ds[i], ds[j] = ds[j], ds[i]
	}
	return ds
}

// CanReach returns the set of blocks from which target is reachable
// (including target), optionally without passing through block `avoid`
// (avoid < 0: none).
func (g *Graph) CanReach(target int, avoid int) []bool {
	n := len(g.Succ)
	r := make([]bool, n)
	if !g.Reach[target] {
		return r
	}
	stack := []int{target}
	r[target] = true
	for len(stack) > 0 {
		b := stack[len(stack)-1]
		stack = stack[:len(stack)-1]
		for _, p := range g.Pred[b] {
			if p == avoid || r[p] {
				continue
			}
			r[p] = true
			stack = append(stack, p)
		}
	}
	return r
}

func (g *Graph) computeLoops() {
	n := len(g.Succ)
	g.loopOf = make([]*Loop, n)
	byHead := map[int]*Loop{}
	for _, b := range g.order {
		for _, s := range g.Succ[b] {
			if g.Dominates(s, b) { // back edge b -> s
				l := byHead[s]
				if l == nil {
					l = &Loop{Head: s, Body: map[int]bool{s: true}}
					byHead[s] = l
					g.Loops = append(g.Loops, l)
				}
				l.Latches = append(l.Latches, b)
				// body: nodes reaching b without passing s
				stack := []int{b}
				for len(stack) > 0 {
					x := stack[len(stack)-1]
					stack = stack[:len(stack)-1]
					if l.Body[x] {
						continue
					}
					l.Body[x] = true
					for _, p := range g.Pred[x] {
						stack = append(stack, p)
					}
				}
			}
		}
	}
	for _, l := range g.Loops {
		l.ID = loopID(g.Fn, l.Head)
	}
	// innermost loop per block: the smallest body containing it
	for b := 0; b < n; b++ {
		for _, l := range g.Loops {
			if l.Body[b] && (g.loopOf[b] == nil || len(l.Body) < len(g.loopOf[b].Body)) {
				g.loopOf[b] = l
			}
		}
	}
}

// LoopOf returns the innermost loop containing block b.
func (g *Graph) LoopOf(b int) *Loop { return g.loopOf[b] }

// LoopsContaining returns all loops containing block b, outermost first.
func (g *Graph) LoopsContaining(b int) []*Loop {
	var ls []*Loop
	for _, l := range g.Loops {
		if l.Body[b] {
			ls = append(ls, l)
		}
	}
	// outermost first: larger body first
	for i := 0; i < len(ls); i++ {
		for j := i + 1; j < len(ls); j++ {
			if len(ls[j].Body) > len(ls[i].Body) {
				ls[i], ls[j] = ls[j], ls[i]
			}
		}
	}
	return ls
}

func loopID(fn *ssa.Function, head int) string {
	return shortFn(fn) + "#L" + itoa(head)
}

func itoa(i int) string {
	if i == 0 {
		return "0"
	}
	neg := i < 0
	if neg {
		i = -i
	}
	var b []byte
	for i > 0 {
		b = append([]byte{byte('0' + i%10)}, b...)
		i /= 10
	}
	if neg {
		b = append([]byte{'-'}, b...)
	}
	return string(b)
}
