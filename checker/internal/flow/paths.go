package flow

import (
	"fmt"
	"go/token"
	"go/types"
	"strings"

	"golang.org/x/tools/go/ssa"
)

type graphKey struct {
	fn  *ssa.Function
	ctx *Ctx
}

// Mode selects which returns of a function count as "success".
type Mode int

const (
	ModeErr    Mode = iota // returns whose error result may be nil
	ModeTrue               // bool predicate returning true
	ModeFalse              // bool predicate returning false
	ModeAll                // every return
	ModeNil                // single pointer result is nil
	ModeNonNil             // single pointer result is not nil
)

type pathKey struct {
	fn   *ssa.Function
	ctx  *Ctx
	mode Mode
}

// Gate is a predicate that holds on a path.
type Gate struct {
	Pred *Term
	Pos  token.Pos
	Fn   *ssa.Function
	Ctx  *Ctx
	// Loop != "": the predicate holds for every completed iteration of that
	// loop (terms mention iter[Loop]); Dom is the loop's continuation test.
	Loop string
	Dom  *Term
	// Complete: the loop can be left towards the target only through its
	// header test (no break), so the forall really covers every element.
	Complete bool
	// OK != nil: marker that the call succeeded (all gates of the callee follow).
	Call ssa.CallInstruction
}

func (g *Gate) String() string {
	s := g.Pred.String()
	if g.Loop != "" {
		s = "forall[" + g.Loop + "] " + s
	}
	return s
}

// Alt is one way for a function to return successfully.
type Alt struct {
	Gates   []*Gate
	Results []*Term
	Ret     *ssa.Return
	Ctx     *Ctx
}

// fork returns a copy of ctx with call bound to the chosen callee alternative.
func (e *Engine) fork(ctx *Ctx, call ssa.CallInstruction, alt *Alt) *Ctx {
	n := &Ctx{Parent: ctx.Parent, Call: ctx.Call, Fn: ctx.Fn, Unknown: ctx.Unknown, depth: ctx.depth, branch: ctx.branch}
	n.choices = map[ssa.CallInstruction]*Alt{}
	for k, v := range ctx.choices {
		n.choices[k] = v
	}
	n.choices[call] = alt
	return n
}

// truth evaluates a boolean term under the assumptions.
func (e *Engine) truth(t *Term) (val, known bool) {
	if t.IsConst("true") {
		return true, true
	}
	if t.IsConst("false") {
		return false, true
	}
	if v, ok := e.Assume[t.String()]; ok {
		return v, true
	}
	if v, ok := e.Assume[Not(t).String()]; ok {
		return !v, true
	}
	if t.Op == OpBin && (t.Name == "==" || t.Name == "!=") {
		a, b := StripConv(t.Args[0]), StripConv(t.Args[1])
		eq, known := false, false
		switch {
		case a.String() == b.String() && pureTerm(a):
			eq, known = true, true
		case isNilConst(a) && nonNil(b), isNilConst(b) && nonNil(a):
			eq, known = false, true
		}
		if known {
			return eq == (t.Name == "=="), true
		}
	}
	if t.Op == OpPhi {
		// all alternatives agree
		var v0 bool
		for i, a := range t.Args {
			v, k := e.truth(a)
			if !k {
				return false, false
			}
			if i == 0 {
				v0 = v
			} else if v != v0 {
				return false, false
			}
		}
		return v0, len(t.Args) > 0
	}
	return false, false
}

func isNilConst(t *Term) bool { return t.IsConst("nil") }

func nonNil(t *Term) bool {
	switch t.Op {
	case OpNew, OpMake, OpAddr, OpFunc, OpClosure, OpAddrG, OpStruct:
		return true
	case OpPhi:
		for _, a := range t.Args {
			if !nonNil(a) {
				return false
			}
		}
		return len(t.Args) > 0
	case OpIte:
		return nonNil(t.Args[1]) && nonNil(t.Args[2])
	}
	return false
}

func pureTerm(t *Term) bool {
	return !t.Contains(func(x *Term) bool { return x.Op == OpInvoke || x.Op == OpUnknown })
}

// GraphOf returns fn's control-flow graph pruned under ctx and the assumptions.
func (e *Engine) GraphOf(fn *ssa.Function, ctx *Ctx) *Graph {
	k := graphKey{fn, ctx}
	if g, ok := e.graphs[k]; ok {
		return g
	}
	if e.graphBusy[k] {
		// pruning this very graph needs a value that depends on it: answer
		// with the unpruned graph and mark everything derived as provisional
		e.deferCount++
		return newGraph(fn, nil, e.NoReturn)
	}
	e.graphBusy[k] = true
	keep := func(b *ssa.BasicBlock, i int) bool {
		iff, ok := b.Instrs[len(b.Instrs)-1].(*ssa.If)
		if !ok {
			return true
		}
		if v, fixed := ctx.branch[iff]; fixed {
			return v == (i == 0)
		}
		v, known := e.truth(e.Eval(iff.Cond, ctx))
		if !known {
			return true
		}
		return v == (i == 0)
	}
	g := newGraph(fn, keep, e.NoReturn)
	delete(e.graphBusy, k)
	e.graphs[k] = g
	return g
}

type state struct {
	gates []*Gate
	ctx   *Ctx
}

const maxAlts = 512

// Paths returns the alternatives through which fn returns in the given mode.
func (e *Engine) Paths(fn *ssa.Function, ctx *Ctx, mode Mode) []*Alt {
	k := pathKey{fn, ctx, mode}
	if a, ok := e.pathMemo[k]; ok {
		return a
	}
	if e.pathBusy[k] {
		e.Undecided = append(e.Undecided, "recursive call cycle through "+shortFn(fn))
		return nil
	}
	e.pathBusy[k] = true
	defer delete(e.pathBusy, k)
	g := e.GraphOf(fn, ctx)
	if iff := e.splitPoint(g, ctx, mode); iff != nil {
		// a conditional region with a checking loop: one set of alternatives per outcome
		var alts []*Alt
		for _, val := range []bool{true, false} {
			sub := e.withBranch(ctx, iff, val)
			cond := e.Eval(iff.Cond, ctx)
			if !val {
				cond = Not(cond)
			}
			for _, a := range e.Paths(fn, sub, mode) {
				na := *a
				na.Gates = splitConj(append([]*Gate{{Pred: cond, Pos: condPos(iff), Fn: fn, Ctx: ctx}}, a.Gates...))
				alts = append(alts, &na)
			}
		}
		e.pathMemo[k] = alts
		return alts
	}
	var alts []*Alt
	hasErr := false
	if n := fn.Signature.Results().Len(); n > 0 && isErrorType(fn.Signature.Results().At(n-1).Type()) {
		hasErr = true
	}
	for _, b := range fn.Blocks {
		if !g.Reach[b.Index] || g.CutAt[b.Index] >= 0 {
			continue
		}
		ret, ok := b.Instrs[len(b.Instrs)-1].(*ssa.Return)
		if !ok {
			continue
		}
		var states []state
		// the operand the return was split on (per state), so that each
		// alternative reports the value of its own case, not the merged phi
		var splitVal []ssa.Value
		splitIdx := -1
		note := func(v ssa.Value, n int) {
			for i := 0; i < n; i++ {
				splitVal = append(splitVal, v)
			}
		}
		switch {
		case mode == ModeErr && hasErr:
			last := ret.Results[len(ret.Results)-1]
			splitIdx = len(ret.Results) - 1
			for _, c := range e.phiCases(g, b.Index, last, []state{{nil, ctx}}, 0, 0) {
				sub := e.applyErrOperand(c.v, c.at, g, c.states)
				note(c.v, len(sub))
				states = append(states, sub...)
			}
		case (mode == ModeTrue || mode == ModeFalse) && len(ret.Results) >= 1 && isBoolType(ret.Results[len(ret.Results)-1].Type()):
			// a predicate, or a (value, found) pair tested on its flag
			for _, c := range e.phiCases(g, b.Index, ret.Results[len(ret.Results)-1], []state{{nil, ctx}}, 0, 0) {
				states = append(states, e.applyBoolOperand(c.v, mode == ModeTrue, c.states)...)
			}
		case (mode == ModeNil || mode == ModeNonNil) && len(ret.Results) == 1:
			// a lookup helper returning a pointer or nil, tested against nil by its caller
			for _, c := range e.phiCases(g, b.Index, ret.Results[0], []state{{nil, ctx}}, 0, 0) {
				isNil := false
				if k, ok := c.v.(*ssa.Const); ok && k.IsNil() {
					isNil = true
				}
				nonNil := false
				switch c.v.(type) {
				case *ssa.Alloc, *ssa.IndexAddr, *ssa.FieldAddr, *ssa.MakeInterface, *ssa.MakeSlice, *ssa.MakeMap, *ssa.MakeClosure:
					nonNil = true
				}
				if (mode == ModeNil && nonNil) || (mode == ModeNonNil && isNil) {
					continue
				}
				states = append(states, c.states...)
			}
		default:
			states = e.collect(g, b.Index, []state{{nil, ctx}}, 0)
		}
		for si, st := range states {
			alt0 := &Alt{Gates: splitConj(expandFiniteLoops(st.gates)), Ret: ret, Ctx: st.ctx}
			for ri, r := range ret.Results {
				if ri == splitIdx && si < len(splitVal) && splitVal[si] != nil {
					r = splitVal[si]
				}
				alt0.Results = append(alt0.Results, e.Eval(r, st.ctx))
			}
			unrolled := e.resolveDynamicOK(unrollFiniteExits(alt0), 0)
			for _, alt := range unrolled {
				if len(unrolled) > 1 || alt != alt0 {
					// an unrolled exit whose error result is a definite failure, or
					// whose gates are contradictory, is not a success alternative
					if mode == ModeErr && hasErr && len(alt.Results) > 0 && e.termIsNonNilError(alt.Results[len(alt.Results)-1]) {
						continue
					}
					if hasFalseGate(alt.Gates) {
						continue
					}
				}
				alts = append(alts, alt)
			}
			if len(alts) > maxAlts {
				e.Undecided = append(e.Undecided, "too many success alternatives in "+shortFn(fn))
				e.pathMemo[k] = alts
				return alts
			}
		}
	}
	e.pathMemo[k] = alts
	return alts
}

// applyErrOperand filters / extends states according to the error operand of
// a return: provably non-nil drops the return, a repository call's result
// multiplies in the callee's alternatives.
func (e *Engine) applyErrOperand(v ssa.Value, b *ssa.BasicBlock, g *Graph, states []state) []state {
	switch x := v.(type) {
	case *ssa.Const:
		if x.IsNil() {
			return states
		}
	case *ssa.Phi:
		allFail := len(x.Edges) > 0
		for i, ed := range x.Edges {
			pred := x.Block().Preds[i]
			if !g.Reach[pred.Index] || !hasEdge(g, pred.Index, x.Block().Index) {
				continue
			}
			if !e.syntacticNonNil(ed, 0) {
				allFail = false
			}
		}
		if allFail {
			return nil
		}
		return states
	}
	if e.syntacticNonNil(v, 0) {
		return nil
	}
	// the path of this case already carries the gate "v != nil" (the phi edge
	// left a test of v on its non-nil side): the returned error is a failure
	{
		var keep []state
		for _, st := range states {
			t := StripConv(e.Eval(v, st.ctx))
			nonNil := false
			for _, gt := range st.gates {
				if gt.Loop != "" || gt.Pred == nil {
					continue
				}
				p := StripConv(gt.Pred)
				if p.Op == OpBin && p.Name == "!=" && len(p.Args) == 2 {
					a, b2 := StripConv(p.Args[0]), StripConv(p.Args[1])
					if (a.IsConst("nil") && Eq(b2, t)) || (b2.IsConst("nil") && Eq(a, t)) {
						nonNil = true
					}
				}
			}
			if !nonNil {
				keep = append(keep, st)
			}
		}
		if len(keep) != len(states) {
			states = keep
			if len(states) == 0 {
				return nil
			}
		}
	}
	// err known non-nil / nil from a dominating test of the same value
	for _, d := range g.Dominators(b.Index) {
		blk := g.Fn.Blocks[d]
		iff, ok := blk.Instrs[len(blk.Instrs)-1].(*ssa.If)
		if !ok || len(g.Succ[d]) != 2 {
			continue
		}
		bo, ok := iff.Cond.(*ssa.BinOp)
		if !ok || (bo.Op != token.NEQ && bo.Op != token.EQL) {
			continue
		}
		var other ssa.Value
		if bo.X == v {
			other = bo.Y
		} else if bo.Y == v {
			other = bo.X
		} else {
			continue
		}
		if c, ok := other.(*ssa.Const); !ok || !c.IsNil() {
			continue
		}
		reach := g.CanReach(b.Index, d)
		s0, s1 := blk.Succs[0].Index, blk.Succs[1].Index
		r0 := reach[s0] || s0 == b.Index
		r1 := reach[s1] || s1 == b.Index
		if r0 == r1 {
			continue
		}
		condTrue := r0
		isNil := (bo.Op == token.EQL) == condTrue
		if !isNil {
			return nil // returning an error known to be non-nil
		}
		return states
	}
	// result of a call
	if call, idx := callOf(v); call != nil {
		if cal := e.CalleeOf(call); cal != nil && idx == cal.Signature.Results().Len()-1 || (call != nil && idx < 0) {
			if cal := e.CalleeOf(call); cal != nil {
				return e.mulCall(call, cal, ModeErr, states, "")
			}
		}
		if out, ok := e.mulDynamic(call, idx, states, ""); ok {
			return out
		}
		if cal := call.Common().StaticCallee(); cal != nil {
			switch cal.String() {
			case "go.uber.org/multierr.Combine":
				return e.mulCombine(call, states, b)
			}
		}
		// `return lib.F(...)`: the function succeeds exactly when that call's
		// error is nil — the success alternative carries that as a gate
		if cal := call.Common().StaticCallee(); cal != nil && !e.P.InRepo(cal) && isErrorType(v.Type()) {
			var out []state
			for _, st := range states {
				t := e.mk(OpBin, "==", nil, e.Eval(v, st.ctx), C("nil"))
				out = append(out, state{append(append([]*Gate{}, st.gates...), &Gate{Pred: t, Pos: v.Pos(), Fn: g.Fn, Ctx: st.ctx}), st.ctx})
			}
			return out
		}
	}
	return states
}

func hasEdge(g *Graph, from, to int) bool {
	for _, s := range g.Succ[from] {
		if s == to {
			return true
		}
	}
	return false
}

// callOf returns the call instruction producing v and the result index
// (-1 for a single-result call).
func callOf(v ssa.Value) (*ssa.Call, int) {
	switch x := v.(type) {
	case *ssa.Call:
		return x, -1
	case *ssa.Extract:
		if c, ok := x.Tuple.(*ssa.Call); ok {
			return c, x.Index
		}
	case *ssa.UnOp:
		// a local that lives in memory (a named result whose address a deferred
		// call holds) read back right after it was assigned: `err = f(); if err != nil`
		if al, ok := x.X.(*ssa.Alloc); ok && x.Op == token.MUL && slotIsPrivate(al) {
			var last *ssa.Store
			for _, in := range x.Block().Instrs {
				if in == ssa.Instruction(x) {
					break
				}
				if st, ok := in.(*ssa.Store); ok && st.Addr == ssa.Value(al) {
					last = st
				}
			}
			if last != nil {
				return callOf(last.Val)
			}
		}
	}
	return nil, 0
}

// mulCombine: return multierr.Combine(a, b, ...) succeeds iff every argument
// is nil; arguments that are results of repository calls contribute their gates.
func (e *Engine) mulCombine(call *ssa.Call, states []state, at *ssa.BasicBlock) []state {
	if len(call.Call.Args) != 1 {
		return states
	}
	for _, el := range e.sliceElems(call.Call.Args[0]) {
		if e.syntacticNonNil(el, 0) || (at != nil && knownNonNilAt(el, at)) {
			return nil // an argument is known to be a non-nil error here
		}
		if c, ok := el.(*ssa.Const); ok && c.IsNil() {
			continue
		}
		if c, idx := callOf(el); c != nil {
			if cal := e.CalleeOf(c); cal != nil && (idx < 0 || idx == cal.Signature.Results().Len()-1) {
				states = e.mulCall(c, cal, ModeErr, states, "")
				continue
			}
		}
		// plain value: gate "el == nil"
		var ns []state
		for _, st := range states {
			t := e.Eval(el, st.ctx)
			pred := e.mk(OpBin, "==", nil, t, C("nil"))
			ns = append(ns, state{append(append([]*Gate{}, st.gates...), &Gate{Pred: pred, Pos: el.Pos(), Fn: call.Parent(), Ctx: st.ctx}), st.ctx})
		}
		states = ns
	}
	return states
}

// sliceElems returns the elements of a varargs slice literal
// (slice t[:] of new [n]T with stores to &t[i]).
func (e *Engine) sliceElems(v ssa.Value) []ssa.Value {
	sl, ok := v.(*ssa.Slice)
	if !ok {
		return nil
	}
	al, ok := sl.X.(*ssa.Alloc)
	if !ok {
		return nil
	}
	var elems []ssa.Value
	byIdx := map[int64]ssa.Value{}
	for _, ref := range *al.Referrers() {
		ia, ok := ref.(*ssa.IndexAddr)
		if !ok {
			continue
		}
		c, ok := ia.Index.(*ssa.Const)
		if !ok {
			return nil
		}
		for _, r2 := range *ia.Referrers() {
			if st, ok := r2.(*ssa.Store); ok && st.Addr == ia {
				byIdx[c.Int64()] = st.Val
			}
		}
	}
	for i := int64(0); i < int64(len(byIdx)); i++ {
		el, ok := byIdx[i]
		if !ok {
			return nil
		}
		elems = append(elems, el)
	}
	return elems
}

// SliceElems exposes sliceElems.
func (e *Engine) SliceElems(v ssa.Value) []ssa.Value { return e.sliceElems(v) }

// mulDynamic: the error result of a call through a function value (a step
// passed to a helper as a parameter) that, on every state's call string,
// is a known repository function or function literal: multiply by its
// alternatives as for a static call.
func (e *Engine) mulDynamic(call *ssa.Call, idx int, states []state, loop string) ([]state, bool) {
	com := call.Common()
	if com.StaticCallee() != nil || com.IsInvoke() || len(states) == 0 {
		return nil, false
	}
	if _, isBuiltin := com.Value.(*ssa.Builtin); isBuiltin {
		return nil, false
	}
	var out []state
	for _, st := range states {
		fv := StripConv(e.Eval(com.Value, st.ctx))
		if fv.Op != OpClosure && fv.Op != OpFunc {
			return nil, false
		}
		target := e.funcByShort(fv.Name)
		if target == nil || !e.P.InRepo(target) || target.Blocks == nil || e.Atoms[target] {
			return nil, false
		}
		res := target.Signature.Results()
		if res.Len() == 0 || !isErrorType(res.At(res.Len()-1).Type()) || (idx >= 0 && idx != res.Len()-1) {
			return nil, false
		}
		out = append(out, e.mulCall(call, target, ModeErr, []state{st}, loop)...)
	}
	return out, true
}

// mulCall multiplies states by the alternatives of a callee.
func (e *Engine) mulCall(call ssa.CallInstruction, cal *ssa.Function, mode Mode, states []state, loop string) []state {
	var out []state
	for _, st := range states {
		sub := e.Enter(st.ctx, call, cal)
		calts := e.Paths(cal, sub, mode)
		if loop != "" && len(calts) > 1 {
			// inside a loop the callee's way of succeeding may differ from iteration
			// to iteration: "for every i: A(i) or B(i)", not "(for every i: A(i)) or
			// (for every i: B(i))". One gate carries the disjunction of the callee's
			// alternatives (each a conjunction of its plain gates).
			var disj *Term
			simple := true
			for _, ca := range calts {
				var conj *Term
				for _, cg := range ca.Gates {
					if cg.Loop != "" || cg.Pred == nil {
						simple = false
						break
					}
					if cg.Pred.Op == "ok" {
						continue
					}
					if conj == nil {
						conj = cg.Pred
					} else {
						conj = e.mk(OpBin, "&&", nil, conj, cg.Pred)
					}
				}
				if conj == nil {
					conj = C("true")
				}
				if disj == nil {
					disj = conj
				} else {
					disj = e.mk(OpBin, "||", nil, disj, conj)
				}
			}
			if simple && disj != nil {
				gs := append([]*Gate{}, st.gates...)
				gs = append(gs, &Gate{Pred: e.mk("ok", shortFn(cal), nil), Pos: call.Pos(), Fn: call.Parent(), Ctx: st.ctx, Call: call, Loop: loop})
				gs = append(gs, &Gate{Pred: disj, Pos: call.Pos(), Fn: call.Parent(), Ctx: st.ctx, Loop: loop})
				out = append(out, state{gs, st.ctx})
				continue
			}
		}
		for _, ca := range calts {
			gs := append([]*Gate{}, st.gates...)
			gs = append(gs, &Gate{Pred: e.mk("ok", shortFn(cal), nil), Pos: call.Pos(), Fn: call.Parent(), Ctx: st.ctx, Call: call, Loop: loop})
			for _, cg := range ca.Gates {
				if loop != "" && cg.Loop == "" {
					c2 := *cg
					c2.Loop = loop
					gs = append(gs, &c2)
				} else {
					gs = append(gs, cg)
				}
			}
			out = append(out, state{gs, e.fork(st.ctx, call, ca)})
			if len(out) > maxAlts {
				e.Undecided = append(e.Undecided, "too many alternatives at call to "+shortFn(cal))
				return out
			}
		}
	}
	return out
}

func (e *Engine) applyBoolOperand(v ssa.Value, want bool, states []state) []state {
	if c, ok := v.(*ssa.Const); ok {
		if constBool(c) == want {
			return states
		}
		return nil
	}
	return e.expand(v, want, states, "", nil, v.Pos())
}

func constBool(c *ssa.Const) bool {
	return c.Value != nil && c.Value.String() == "true"
}

// expand adds the gate "cond == want" to every state, descending into
// repository callees.
func (e *Engine) expand(cond ssa.Value, want bool, states []state, loop string, dom func(*Ctx) *Term, pos token.Pos) []state {
	if u, ok := cond.(*ssa.UnOp); ok && u.Op == token.NOT {
		return e.expand(u.X, !want, states, loop, dom, pos)
	}
	fn := condFn(cond)
	if bo, ok := cond.(*ssa.BinOp); ok && (bo.Op == token.EQL || bo.Op == token.NEQ) {
		var other, val ssa.Value
		if c, ok := bo.Y.(*ssa.Const); ok && c.IsNil() {
			val, other = bo.X, bo.Y
		} else if c, ok := bo.X.(*ssa.Const); ok && c.IsNil() {
			val, other = bo.Y, bo.X
		}
		_ = other
		if val != nil && !isErrorType(val.Type()) {
			if _, isPtr := val.Type().Underlying().(*types.Pointer); isPtr {
				if call, idx := callOf(val); call != nil && idx < 0 {
					if cal := e.CalleeOf(call); cal != nil && cal.Signature.Results().Len() == 1 {
						m := ModeNonNil
						if (bo.Op == token.EQL) == want {
							m = ModeNil
						}
						// the test itself as a plain gate (on the merged result), then the
						// callee's alternatives
						var pre []state
						for _, st := range states {
							t := e.Eval(cond, st.ctx)
							if !want {
								t = Not(t)
							}
							g := &Gate{Pred: t, Pos: pos, Fn: fn, Ctx: st.ctx, Loop: loop}
							if dom != nil {
								g.Dom = dom(st.ctx)
							}
							pre = append(pre, state{append(append([]*Gate{}, st.gates...), g), st.ctx})
						}
						return e.mulCall(call, cal, m, pre, loop)
					}
				}
			}
		}
		if val != nil && isErrorType(val.Type()) {
			wantNil := (bo.Op == token.EQL) == want
			if call, idx := callOf(val); call != nil && wantNil {
				if cal := e.CalleeOf(call); cal != nil && (idx < 0 || idx == cal.Signature.Results().Len()-1) {
					return e.mulCall(call, cal, ModeErr, states, loop)
				}
				if out, ok := e.mulDynamic(call, idx, states, loop); ok {
					return out
				}
			}
		}
	}
	if ex, ok := cond.(*ssa.Extract); ok && isBoolType(ex.Type()) {
		// the flag of a (value, found) pair returned by a repository helper
		if call, ok := ex.Tuple.(*ssa.Call); ok {
			if cal := e.CalleeOf(call); cal != nil && ex.Index == cal.Signature.Results().Len()-1 {
				m := ModeTrue
				if !want {
					m = ModeFalse
				}
				return e.mulCall(call, cal, m, states, loop)
			}
		}
	}
	if call, ok := cond.(*ssa.Call); ok {
		if cal := e.CalleeOf(call); cal != nil && isBoolType(call.Type()) {
			m := ModeTrue
			if !want {
				m = ModeFalse
			}
			return e.mulCall(call, cal, m, states, loop)
		}
	}
	var out []state
	for _, st := range states {
		t := e.Eval(cond, st.ctx)
		if !want {
			t = Not(t)
		}
		g := &Gate{Pred: t, Pos: pos, Fn: fn, Ctx: st.ctx, Loop: loop}
		if dom != nil {
			g.Dom = dom(st.ctx)
		}
		out = append(out, state{append(append([]*Gate{}, st.gates...), g), st.ctx})
	}
	return out
}

func condFn(v ssa.Value) *ssa.Function {
	if in, ok := v.(ssa.Instruction); ok {
		return in.Parent()
	}
	return nil
}

func isBoolType(t types.Type) bool {
	b, ok := t.Underlying().(*types.Basic)
	return ok && b.Kind() == types.Bool
}

// collect gathers the gates enforced on every path from the entry of g.Fn to
// block target, in dominator order.
// phiCase is one way a (possibly phi-merged) operand of a return obtains its
// value: the value, the block at which it is known, and the gates of the path.
type phiCase struct {
	v      ssa.Value
	at     *ssa.BasicBlock
	states []state
}

// phiCases splits the operand v of a return in block b along the incoming
// edges of the phis that define it, so that `err` merged from "nil" and
// "Combine(...)" yields one case per origin with that origin's path gates.
func (e *Engine) phiCases(g *Graph, b int, v ssa.Value, states []state, from int, depth int) []phiCase {
	fn := g.Fn
	phi, ok := v.(*ssa.Phi)
	if !ok || depth > 6 || phi.Block().Parent() != fn || !g.Dominates(phi.Block().Index, b) || !g.Dominates(from, phi.Block().Index) {
		return []phiCase{{v, fn.Blocks[b], e.collect(g, b, states, from)}}
	}
	pb := phi.Block().Index
	var out []phiCase
	for i, edge := range phi.Edges {
		p := phi.Block().Preds[i].Index
		if !g.Reach[p] || !hasEdge(g, p, pb) {
			continue
		}
		if g.Dominates(pb, p) {
			// back edge into a loop-header phi: not split
			return []phiCase{{v, fn.Blocks[b], e.collect(g, b, states, from)}}
		}
		for _, c := range e.phiCases(g, p, edge, states, from, depth+1) {
			st := c.states
			// the edge p -> pb itself
			pblk := fn.Blocks[p]
			if iff, ok := pblk.Instrs[len(pblk.Instrs)-1].(*ssa.If); ok && len(g.Succ[p]) == 2 && pblk.Succs[0].Index != pblk.Succs[1].Index {
				st = e.expand(iff.Cond, pblk.Succs[0].Index == pb, st, "", nil, condPos(iff))
			}
			// tests between the phi and the return
			st = e.collect(g, b, st, pb)
			at := c.at
			if _, isPhi := c.v.(*ssa.Phi); !isPhi {
				at = fn.Blocks[p]
			}
			out = append(out, phiCase{c.v, at, st})
		}
	}
	if len(out) == 0 {
		return []phiCase{{v, fn.Blocks[b], e.collect(g, b, states, from)}}
	}
	return out
}

// collect gathers the gates enforced on every path to block target, in
// dominator order, considering only dominators at or below block `from`.
func (e *Engine) collect(g *Graph, target int, states []state, from int) []state {
	fn := g.Fn
	if target < 0 || target >= len(g.Reach) || !g.Reach[target] {
		return nil // the target cannot be reached under the current assumptions
	}
	doms := g.Dominators(target)
	loopsDone := map[*Loop]bool{}
	for _, d := range doms {
		if !g.Dominates(from, d) {
			continue
		}
		// loops headed here and completed before target
		for _, l := range g.Loops {
			if l.Head == d && !l.Body[target] && !loopsDone[l] {
				loopsDone[l] = true
				states = e.collectLoop(g, l, target, states)
			}
		}
		if d == target {
			break
		}
		blk := fn.Blocks[d]
		iff, ok := blk.Instrs[len(blk.Instrs)-1].(*ssa.If)
		if !ok || len(g.Succ[d]) != 2 {
			continue
		}
		reach := g.CanReach(target, d)
		s0, s1 := blk.Succs[0].Index, blk.Succs[1].Index
		r0 := reach[s0] || s0 == target
		r1 := reach[s1] || s1 == target
		if s0 == d {
			r0 = false
		}
		if s1 == d {
			r1 = false
		}
		if r0 == r1 {
			continue
		}
		states = e.expand(iff.Cond, r0, states, "", nil, condPos(iff))
	}
	if from == 0 {
		states = e.collectImplications(g, target, states)
	}
	return states
}

// collectImplications handles rejects guarded by a conjunction
// (`if A && !B { reject }`): the rejecting test sits in a block that does
// not dominate the target. For each such block b whose path from the nearest
// target-dominating ancestor is a chain of single-predecessor blocks, emit
// the gate  implies(conditions leading to b, accepting outcome of b's test).
func (e *Engine) collectImplications(g *Graph, target int, states []state) []state {
	fn := g.Fn
	reach := g.CanReach(target, -1)
	for _, bi := range g.order {
		if bi == target || g.Dominates(bi, target) || !reach[bi] {
			continue
		}
		blk := fn.Blocks[bi]
		iff, ok := blk.Instrs[len(blk.Instrs)-1].(*ssa.If)
		if !ok || len(g.Succ[bi]) != 2 {
			continue
		}
		s0, s1 := blk.Succs[0].Index, blk.Succs[1].Index
		if reach[s0] == reach[s1] {
			continue
		}
		// skip tests inside a loop the target is outside of (forall gates)
		if l := g.LoopOf(bi); l != nil && !l.Body[target] {
			continue
		}
		// chain of guards from the nearest dominator of target
		type guard struct {
			cond ssa.Value
			want bool
			pos  token.Pos
		}
		var chain []guard
		cur := bi
		okChain := true
		for !g.Dominates(cur, target) {
			if len(g.Pred[cur]) != 1 {
				okChain = false
				break
			}
			p := g.Pred[cur][0]
			pb := fn.Blocks[p]
			if pif, ok := pb.Instrs[len(pb.Instrs)-1].(*ssa.If); ok && len(g.Succ[p]) == 2 {
				if pb.Succs[0].Index == cur && pb.Succs[1].Index == cur {
					okChain = false
					break
				}
				chain = append([]guard{{pif.Cond, pb.Succs[0].Index == cur, condPos(pif)}}, chain...)
			}
			cur = p
		}
		if !okChain || len(chain) == 0 {
			continue
		}
		var out []state
		for _, st := range states {
			var ante *Term
			for _, gd := range chain {
				t := e.Eval(gd.cond, st.ctx)
				if !gd.want {
					t = Not(t)
				}
				if ante == nil {
					ante = t
				} else {
					ante = e.mk(OpBin, "&&", nil, ante, t)
				}
			}
			cons := e.Eval(iff.Cond, st.ctx)
			if !reach[s0] {
				cons = Not(cons)
			}
			gate := &Gate{Pred: e.mk("implies", "", nil, ante, cons), Pos: condPos(iff), Fn: fn, Ctx: st.ctx}
			out = append(out, state{append(append([]*Gate{}, st.gates...), gate), st.ctx})
		}
		states = out
	}
	return states
}

func condPos(iff *ssa.If) token.Pos {
	if p := iff.Cond.Pos(); p.IsValid() {
		return p
	}
	if in, ok := iff.Cond.(ssa.Instruction); ok {
		for _, op := range in.Operands(nil) {
			if *op != nil && (*op).Pos().IsValid() {
				return (*op).Pos()
			}
		}
	}
	blk := iff.Block()
	for i := len(blk.Instrs) - 1; i >= 0; i-- {
		if p := blk.Instrs[i].Pos(); p.IsValid() {
			return p
		}
	}
	return token.NoPos
}

// collectLoop adds forall-gates of loop l: tests inside the loop one of whose
// branches can never reach target (it rejects), taken on every iteration.
func (e *Engine) collectLoop(g *Graph, l *Loop, target int, states []state) (out []state) {
	fn := g.Fn
	reach := g.CanReach(target, -1)
	complete := true
	for u := range l.Body {
		for _, v := range g.Succ[u] {
			if !l.Body[v] && reach[v] && u != l.Head {
				complete = false
			}
		}
	}
	before := len(states)
	_ = before
	mark := map[*Gate]bool{}
	for _, st := range states {
		for _, gt := range st.gates {
			mark[gt] = true
		}
	}
	defer func() {
		for _, st := range out {
			for _, gt := range st.gates {
				if !mark[gt] && gt.Loop == l.ID {
					gt.Complete = complete
				}
			}
		}
	}()
	head := fn.Blocks[l.Head]
	dom := func(ctx *Ctx) *Term {
		if iff, ok := head.Instrs[len(head.Instrs)-1].(*ssa.If); ok {
			t := e.Eval(iff.Cond, ctx)
			if !l.Body[head.Succs[0].Index] {
				t = Not(t)
			}
			return t
		}
		return nil
	}
	for _, bi := range g.order {
		if !l.Body[bi] || g.LoopOf(bi) != l {
			continue
		}
		blk := fn.Blocks[bi]
		iff, ok := blk.Instrs[len(blk.Instrs)-1].(*ssa.If)
		if !ok || len(g.Succ[bi]) != 2 {
			continue
		}
		// must be passed on every iteration
		every := true
		for _, lt := range l.Latches {
			if !g.Dominates(bi, lt) {
				every = false
			}
		}
		s0, s1 := blk.Succs[0].Index, blk.Succs[1].Index
		r0, r1 := reach[s0], reach[s1]
		if r0 == r1 {
			continue
		}
		if !every {
			// a test that only some iterations reach (`if skip { continue }; if bad { reject }`):
			// for every iteration, the conditions leading to it imply its accepting outcome
			states = e.loopImplication(g, l, bi, iff, r0, states, dom)
			continue
		}
		states = e.expand(iff.Cond, r0, states, l.ID, dom, condPos(iff))
	}
	return states
}

// EntryPaths is Paths for an entry function in its root context.
func (e *Engine) EntryPaths(fn *ssa.Function, mode Mode) []*Alt {
	return e.Paths(fn, e.Root(fn), mode)
}

// DescribeAlt renders an alternative for diagnostics.
func (e *Engine) DescribeAlt(a *Alt) string {
	s := fmt.Sprintf("return@%s:", e.site(a.Ret.Pos()))
	for _, g := range a.Gates {
		s += "\n    " + g.String() + "   @" + e.site(g.Pos)
	}
	return s
}

// Frame is a function instance on an inlined call tree.
type Frame struct {
	Fn  *ssa.Function
	Ctx *Ctx
}

// Walk visits every instruction in every block that is reachable (under the
// current assumptions) in the call tree below fn, descending into repository
// callees (including atoms when descendAtoms is set). visit is called once per
// (instruction, frame).
func (e *Engine) Walk(fn *ssa.Function, descendAtoms bool, visit func(in ssa.Instruction, fr Frame)) {
	seen := map[graphKey]bool{}
	entered := map[*ssa.Function]bool{} // function values entered at a resolved call with bound arguments
	var walk func(fn *ssa.Function, ctx *Ctx)
	walk = func(fn *ssa.Function, ctx *Ctx) {
		k := graphKey{fn, ctx}
		if seen[k] || ctx.depth > 40 {
			return
		}
		seen[k] = true
		g := e.GraphOf(fn, ctx)
		for _, b := range fn.Blocks {
			if !g.Reach[b.Index] {
				continue
			}
			for i, in := range b.Instrs {
				visit(in, Frame{fn, ctx})
				if c, ok := in.(ssa.CallInstruction); ok {
					cal := c.Common().StaticCallee()
					if cal != nil && e.P.InRepo(cal) && (descendAtoms || !e.Atoms[cal]) && e.getterField(cal) == "" {
						walk(cal, e.Enter(ctx, c, cal))
					}
					if mc, ok := c.Common().Value.(*ssa.MakeClosure); ok {
						if f, ok := mc.Fn.(*ssa.Function); ok && e.P.InRepo(f) {
							walk(f, e.Enter(ctx, c, f))
						}
					} else if com := c.Common(); cal == nil && !com.IsInvoke() {
						// a call through a function value that is, on this call string, a
						// known function or function literal (a step handed to a helper)
						if _, isBuiltin := com.Value.(*ssa.Builtin); !isBuiltin {
							if fv := StripConv(e.Eval(com.Value, ctx)); fv.Op == OpClosure || fv.Op == OpFunc {
								if t := e.funcByShort(fv.Name); t != nil && e.P.InRepo(t) && t.Blocks != nil && !e.Atoms[t] {
									entered[t] = true
									walk(t, e.Enter(ctx, c, t))
								}
							}
						}
					}
				}
				if g.CutAt[b.Index] == i {
					break
				}
			}
		}
		// function literals passed or stored as values may run — those created in
		// a block that is reachable under the current assumptions
		made := map[*ssa.Function]bool{}
		for _, b := range fn.Blocks {
			if !g.Reach[b.Index] {
				continue
			}
			for i, in := range b.Instrs {
				var ops []*ssa.Value
				for _, op := range in.Operands(ops) {
					if op == nil || *op == nil {
						continue
					}
					switch x := (*op).(type) {
					case *ssa.Function:
						made[x] = true
					case *ssa.MakeClosure:
						if f, ok := x.Fn.(*ssa.Function); ok {
							made[f] = true
						}
					}
				}
				if mc, ok := in.(*ssa.MakeClosure); ok {
					if f, ok := mc.Fn.(*ssa.Function); ok {
						made[f] = true
					}
				}
				if g.CutAt[b.Index] == i {
					break
				}
			}
		}
		for _, a := range fn.AnonFuncs {
			if made[a] && !entered[a] {
				walk(a, e.Enter(ctx, nil, a))
			}
		}
	}
	walk(fn, e.Root(fn))
}

// GatesAt returns, per alternative, the gates that hold whenever block is
// reached in fn (evaluated in ctx).
func (e *Engine) GatesAt(fn *ssa.Function, ctx *Ctx, block int) []*Alt {
	gk := gatesAtKey{fn, ctx, block}
	if a, ok := e.gatesAt[gk]; ok {
		return a
	}
	alts := e.gatesAtUncached(fn, ctx, block)
	if e.gatesAt == nil {
		e.gatesAt = map[gatesAtKey][]*Alt{}
	}
	e.gatesAt[gk] = alts
	return alts
}

type gatesAtKey struct {
	fn    *ssa.Function
	ctx   *Ctx
	block int
}

func (e *Engine) gatesAtUncached(fn *ssa.Function, ctx *Ctx, block int) []*Alt {
	g := e.GraphOf(fn, ctx)
	var alts []*Alt
	for _, st := range e.collect(g, block, []state{{nil, ctx}}, 0) {
		alts = append(alts, &Alt{Gates: splitConj(expandFiniteLoops(st.gates)), Ctx: st.ctx})
	}
	return alts
}

// expandFiniteLoops unrolls the forall gates of loops that run over a finite
// literal sequence (a table of checks) and were left through the loop header:
// "for every row r of {r0..rn-1}: P(r)" becomes P(r0), …, P(rn-1). A loop is
// recognised by its exit gate len(X) <= iter with X a literal sequence.
func expandFiniteLoops(gates []*Gate) []*Gate {
	// loop id -> (iter term string, N)
	type fin struct {
		iter *Term
		n    int
		exit *Gate
	}
	fins := map[string]fin{}
	for _, g := range gates {
		if g.Loop != "" || g.Pred == nil {
			continue
		}
		p := StripConv(g.Pred)
		if p.Op != OpBin || p.Name != "<=" || len(p.Args) != 2 {
			continue
		}
		it := StripConv(p.Args[1])
		if it.Op != OpIter || len(it.Args) != 2 || !it.Args[0].IsConst("0") || !it.Args[1].IsConst("1") {
			continue
		}
		n, ok := constInt(StripConv(p.Args[0]))
		if !ok || n < 0 || n > 64 || !(IsSeqLen(p.Args[0]) || indexesTable(gates, it, int(n))) {
			continue
		}
		id := it.Name
		if i := strings.LastIndex(id, "/"); i >= 0 {
			id = id[:i]
		}
		fins[id] = fin{it, int(n), g}
	}
	if len(fins) == 0 {
		return gates
	}
	var out []*Gate
	for _, g := range gates {
		if g.Loop == "" {
			skip := false
			for _, f := range fins {
				if f.exit == g {
					skip = true
				}
			}
			if !skip {
				out = append(out, g)
			}
			continue
		}
		f, ok := fins[g.Loop]
		if !ok || g.Pred == nil {
			out = append(out, g)
			continue
		}
		its := f.iter.String()
		for k := 0; k < f.n; k++ {
			kc := C(fmt.Sprint(k))
			p := Subst(g.Pred, func(x *Term) *Term {
				if x.Op == OpIter && x.String() == its {
					return kc
				}
				return nil
			})
			if p.IsConst("true") {
				continue
			}
			ng := *g
			ng.Pred = p
			ng.Loop = ""
			ng.Dom = nil
			out = append(out, &ng)
		}
	}
	return out
}

func hasFalseGate(gs []*Gate) bool {
	for _, g := range gs {
		if g.Pred != nil && g.Loop == "" && g.Pred.IsConst("false") {
			return true
		}
	}
	return false
}

// splitConj turns a plain gate a && b into the two gates a and b.
func splitConj(gates []*Gate) []*Gate {
	var out []*Gate
	var add func(g *Gate)
	add = func(g *Gate) {
		if g.Pred != nil && g.Loop == "" {
			if p := StripConv(g.Pred); p.Op == OpBin && p.Name == "&&" && len(p.Args) == 2 {
				for _, a := range p.Args {
					ng := *g
					ng.Pred = a
					add(&ng)
				}
				return
			}
		}
		out = append(out, g)
	}
	for _, g := range gates {
		add(g)
	}
	return out
}

// termIsNonNilError: the term of an error result that is certainly not nil.
func (e *Engine) termIsNonNilError(t *Term) bool {
	t = StripConv(t)
	switch t.Op {
	case OpRes:
		return false
	case OpGlobal:
		n := t.Name
		if i := strings.LastIndex(n, "."); i >= 0 {
			n = n[i+1:]
		}
		return strings.HasPrefix(n, "Err")
	case OpCall:
		if strings.HasPrefix(t.Name, "dynamic#") && len(t.Args) > 0 {
			// call of a known function literal all of whose returns are definite errors
			fv := StripConv(t.Args[0])
			if fv.Op == OpClosure || fv.Op == OpFunc {
				if fn := e.funcByShort(fv.Name); fn != nil && fn.Blocks != nil {
					n := 0
					for _, b := range fn.Blocks {
						if ret, ok := b.Instrs[len(b.Instrs)-1].(*ssa.Return); ok {
							n++
							if !e.RetIsFail(ret) {
								return false
							}
						}
					}
					return n > 0
				}
			}
			return false
		}
		return t.Name == "fmt.Errorf" || t.Name == "errors.New" || strings.HasPrefix(t.Name, "fmt.Errorf#") || strings.HasPrefix(t.Name, "errors.New#")
	case OpNew, OpStruct, OpAddr:
		return true
	case OpPhi:
		for _, a := range t.Args {
			if !e.termIsNonNilError(a) {
				return false
			}
		}
		return len(t.Args) > 0
	}
	return false
}

// unrollFiniteExits splits an alternative that leaves a loop over a finite
// literal sequence from inside the body (its gates say iter < N for a constant
// N) into one alternative per exit iteration k: the forall gates of the loop
// hold for the iterations before k, the plain gates and the results are taken
// at iteration k.
func unrollFiniteExits(a *Alt) []*Alt {
	var it *Term
	n := 0
	for _, g := range a.Gates {
		if g.Loop != "" || g.Pred == nil {
			continue
		}
		p := StripConv(g.Pred)
		if p.Op != OpBin || p.Name != "<" || len(p.Args) != 2 {
			continue
		}
		x := StripConv(p.Args[0])
		if x.Op != OpIter || len(x.Args) != 2 || !x.Args[0].IsConst("0") || !x.Args[1].IsConst("1") {
			continue
		}
		k, ok := constInt(StripConv(p.Args[1]))
		if !ok || k <= 0 || k > 32 || !(IsSeqLen(p.Args[1]) || indexesTable(a.Gates, x, int(k))) {
			continue
		}
		it, n = x, int(k)
		break
	}
	if it == nil {
		return []*Alt{a}
	}
	id := it.Name
	if i := strings.LastIndex(id, "/"); i >= 0 {
		id = id[:i]
	}
	its := it.String()
	at := func(t *Term, k int) *Term {
		kc := C(fmt.Sprint(k))
		return Subst(t, func(x *Term) *Term {
			if x.Op == OpIter && x.String() == its {
				return kc
			}
			return nil
		})
	}
	var out []*Alt
	for k := 0; k < n; k++ {
		na := &Alt{Ret: a.Ret, Ctx: a.Ctx}
		for _, g := range a.Gates {
			if g.Pred == nil {
				na.Gates = append(na.Gates, g)
				continue
			}
			if g.Loop == id {
				for j := 0; j < k; j++ {
					p := at(g.Pred, j)
					if p.IsConst("true") {
						continue
					}
					ng := *g
					ng.Pred, ng.Loop, ng.Dom = p, "", nil
					na.Gates = append(na.Gates, &ng)
				}
				continue
			}
			p := at(g.Pred, k)
			if p.IsConst("true") {
				continue
			}
			ng := *g
			ng.Pred = p
			na.Gates = append(na.Gates, &ng)
		}
		for _, r := range a.Results {
			na.Results = append(na.Results, at(r, k))
		}
		out = append(out, unrollFiniteExits(na)...)
	}
	return out
}

// loopImplication: block bi of loop l ends in a test with a rejecting side but
// is not passed on every iteration. If it is reached from a block that is
// passed on every iteration through a chain of single-predecessor blocks,
// emit  forall iteration: implies(conditions along the chain, accepting outcome).
func (e *Engine) loopImplication(g *Graph, l *Loop, bi int, iff *ssa.If, acceptOnTrue bool, states []state, dom func(*Ctx) *Term) []state {
	fn := g.Fn
	everyIter := func(b int) bool {
		for _, lt := range l.Latches {
			if !g.Dominates(b, lt) {
				return false
			}
		}
		return true
	}
	type guard struct {
		cond ssa.Value
		want bool
	}
	var chain []guard
	cur := bi
	for !everyIter(cur) {
		if len(g.Pred[cur]) != 1 || !l.Body[g.Pred[cur][0]] {
			return states
		}
		p := g.Pred[cur][0]
		pb := fn.Blocks[p]
		if pif, ok := pb.Instrs[len(pb.Instrs)-1].(*ssa.If); ok && len(g.Succ[p]) == 2 {
			if pb.Succs[0].Index == cur && pb.Succs[1].Index == cur {
				return states
			}
			chain = append([]guard{{pif.Cond, pb.Succs[0].Index == cur}}, chain...)
		}
		cur = p
	}
	if len(chain) == 0 {
		return states
	}
	var out []state
	for _, st := range states {
		var ante *Term
		for _, gd := range chain {
			t := e.Eval(gd.cond, st.ctx)
			if !gd.want {
				t = Not(t)
			}
			if ante == nil {
				ante = t
			} else {
				ante = e.mk(OpBin, "&&", nil, ante, t)
			}
		}
		cons := e.Eval(iff.Cond, st.ctx)
		if !acceptOnTrue {
			cons = Not(cons)
		}
		gate := &Gate{Pred: e.mk("implies", "", nil, ante, cons), Pos: condPos(iff), Fn: fn, Ctx: st.ctx, Loop: l.ID, Dom: dom(st.ctx)}
		out = append(out, state{append(append([]*Gate{}, st.gates...), gate), st.ctx})
	}
	return out
}

// resolveDynamicOK: a gate "f() == nil" on the error of a call through a
// function value that has become a known function literal (a row of an
// unrolled table of steps) is replaced by the success alternatives of that
// literal, as for a static call.
func (e *Engine) resolveDynamicOK(alts []*Alt, depth int) []*Alt {
	if depth > 16 {
		return alts
	}
	var out []*Alt
	changed := false
	for _, a := range alts {
		gi, target, call := -1, (*ssa.Function)(nil), (*ssa.Call)(nil)
		for i, g := range a.Gates {
			if g.Loop != "" || g.Pred == nil || g.Ctx == nil {
				continue
			}
			p := StripConv(g.Pred)
			if p.Op != OpBin || p.Name != "==" || len(p.Args) != 2 {
				continue
			}
			x := StripConv(p.Args[1])
			if !StripConv(p.Args[0]).IsConst("nil") {
				x = StripConv(p.Args[0])
				if !StripConv(p.Args[1]).IsConst("nil") {
					continue
				}
			}
			if x.Op == OpRes && len(x.Args) == 1 {
				x = StripConv(x.Args[0])
			}
			if x.Op != OpCall || !strings.HasPrefix(x.Name, "dynamic#") || len(x.Args) == 0 {
				continue
			}
			fv := StripConv(x.Args[0])
			c, isCall := x.Val.(*ssa.Call)
			if (fv.Op != OpClosure && fv.Op != OpFunc) || !isCall {
				continue
			}
			fn := e.funcByShort(fv.Name)
			if fn == nil || !e.P.InRepo(fn) || fn.Blocks == nil {
				continue
			}
			res := fn.Signature.Results()
			if res.Len() == 0 || !isErrorType(res.At(res.Len()-1).Type()) {
				continue
			}
			gi, target, call = i, fn, c
			break
		}
		if gi < 0 {
			out = append(out, a)
			continue
		}
		changed = true
		g := a.Gates[gi]
		sub := e.Enter(g.Ctx, call, target)
		for _, ca := range e.Paths(target, sub, ModeErr) {
			na := &Alt{Ret: a.Ret, Ctx: a.Ctx, Results: a.Results}
			na.Gates = append(na.Gates, a.Gates[:gi]...)
			na.Gates = append(na.Gates, &Gate{Pred: e.mk("ok", shortFn(target), nil), Pos: call.Pos(), Fn: call.Parent(), Ctx: g.Ctx, Call: call})
			na.Gates = append(na.Gates, ca.Gates...)
			na.Gates = append(na.Gates, a.Gates[gi+1:]...)
			out = append(out, na)
		}
	}
	if changed {
		return e.resolveDynamicOK(out, depth+1)
	}
	return out
}

type branchKey struct {
	ctx *Ctx
	iff *ssa.If
	val bool
}

// withBranch derives the context in which test iff of ctx.Fn has outcome val.
func (e *Engine) withBranch(ctx *Ctx, iff *ssa.If, val bool) *Ctx {
	if e.branchCtx == nil {
		e.branchCtx = map[branchKey]*Ctx{}
	}
	k := branchKey{ctx, iff, val}
	if c := e.branchCtx[k]; c != nil {
		return c
	}
	n := &Ctx{Parent: ctx.Parent, Call: ctx.Call, Fn: ctx.Fn, Unknown: ctx.Unknown, depth: ctx.depth, choices: ctx.choices}
	n.branch = map[*ssa.If]bool{}
	for kk, v := range ctx.branch {
		n.branch[kk] = v
	}
	n.branch[iff] = val
	e.branchCtx[k] = n
	return n
}

// splitPoint finds a test of g.Fn, outside any loop and not yet fixed in ctx,
// that guards a region which (a) is bypassed by the other outcome, (b) contains
// a loop with a rejecting exit, and (c) rejoins the success paths. Such a
// region's checks dominate no success return, so they are analysed per outcome.
// succeedsIn: the return is a success return for the mode (an error that may
// be nil; a predicate result that may have the wanted value).
func (e *Engine) succeedsIn(ret *ssa.Return, mode Mode) bool {
	switch mode {
	case ModeTrue, ModeFalse:
		if n := len(ret.Results); n > 0 {
			if c, ok := ret.Results[n-1].(*ssa.Const); ok && isBoolType(c.Type()) {
				return constBool(c) == (mode == ModeTrue)
			}
		}
		return true
	case ModeAll, ModeNil, ModeNonNil:
		return true
	}
	return !e.RetIsFail(ret)
}

func (e *Engine) splitPoint(g *Graph, ctx *Ctx, mode Mode) *ssa.If {
	fn := g.Fn
	if len(ctx.branch) >= 4 {
		return nil
	}
	n := len(fn.Blocks)
	succOK := make([]bool, n) // can reach a non-failing return
	var work []int
	for _, b := range fn.Blocks {
		if !g.Reach[b.Index] {
			continue
		}
		if ret, ok := b.Instrs[len(b.Instrs)-1].(*ssa.Return); ok && e.succeedsIn(ret, mode) {
			succOK[b.Index] = true
			work = append(work, b.Index)
		}
	}
	for len(work) > 0 {
		v := work[len(work)-1]
		work = work[:len(work)-1]
		for _, u := range g.Pred[v] {
			if !succOK[u] {
				succOK[u] = true
				work = append(work, u)
			}
		}
	}
	for _, b := range fn.Blocks {
		bi := b.Index
		if !g.Reach[bi] || g.LoopOf(bi) != nil || len(g.Succ[bi]) != 2 {
			continue
		}
		iff, ok := b.Instrs[len(b.Instrs)-1].(*ssa.If)
		if !ok || b.Succs[0] == b.Succs[1] {
			continue
		}
		if _, fixed := ctx.branch[iff]; fixed {
			continue
		}
		s0, s1 := b.Succs[0].Index, b.Succs[1].Index
		if !succOK[s0] || !succOK[s1] {
			continue
		}
		for side := 0; side < 2; side++ {
			entry := []int{s0, s1}[side]
			other := []int{s0, s1}[1-side]
			// the other outcome can reach a success return without entering the region
			bypass := false
			seen := map[int]bool{entry: true}
			st := []int{other}
			for len(st) > 0 && !bypass {
				u := st[len(st)-1]
				st = st[:len(st)-1]
				if seen[u] {
					continue
				}
				seen[u] = true
				if ret, ok := fn.Blocks[u].Instrs[len(fn.Blocks[u].Instrs)-1].(*ssa.Return); ok && e.succeedsIn(ret, mode) {
					bypass = true
				}
				st = append(st, g.Succ[u]...)
			}
			if !bypass || other == entry {
				continue
			}
			// the region: blocks dominated by entry
			for _, l := range g.Loops {
				if !g.Dominates(entry, l.Head) {
					continue
				}
				for u := range l.Body {
					for _, v := range g.Succ[u] {
						if !l.Body[v] && !succOK[v] {
							return iff
						}
					}
				}
			}
		}
	}
	return nil
}

// indexesTable: some gate indexes a finite literal sequence of exactly n rows
// with the loop counter it (the loop runs over a table even though its bound
// is written as a plain constant, as for an array literal).
func indexesTable(gates []*Gate, it *Term, n int) bool {
	its := it.String()
	found := false
	for _, g := range gates {
		if g.Pred == nil || found {
			continue
		}
		g.Pred.Walk(func(x *Term) bool {
			if found {
				return false
			}
			if x.Op == OpIndex && len(x.Args) == 2 && StripConv(x.Args[1]).String() == its {
				if els, ok := SeqElems(x.Args[0]); ok && len(els) == n {
					found = true
					return false
				}
			}
			return true
		})
	}
	return found
}
