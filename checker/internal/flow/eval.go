package flow

import (
	"fmt"
	"go/constant"
	"go/token"
	"go/types"
	"sort"
	"strings"

	"golang.org/x/tools/go/ssa"

	"tdxlint/internal/load"
)

// Ctx is a call-string context. The root context belongs to the entry
// function; an Unknown context has no call string, so its parameters are
// resolved through every static caller.
type Ctx struct {
	Parent  *Ctx
	Call    ssa.CallInstruction
	Fn      *ssa.Function
	Unknown bool
	depth   int
	// choices binds call instructions of Fn to the callee alternative taken
	// (set while collecting gates along one success alternative).
	choices map[ssa.CallInstruction]*Alt
	// branch fixes the outcome of tests of Fn on this alternative (region
	// splitting: a conditional region that contains a checking loop is
	// analysed once per outcome of its guard).
	branch map[*ssa.If]bool
}

func (c *Ctx) String() string {
	if c == nil {
		return "<nil>"
	}
	if c.Unknown {
		return "?" + shortFn(c.Fn)
	}
	if c.Parent == nil {
		return shortFn(c.Fn)
	}
	return c.Parent.String() + ">" + shortFn(c.Fn)
}

// CallString lists the functions on the call string, outermost first.
func (c *Ctx) CallString() []string {
	var s []string
	for x := c; x != nil; x = x.Parent {
		s = append([]string{shortFn(x.Fn)}, s...)
	}
	return s
}

type ctxKey struct {
	parent *Ctx
	call   ssa.CallInstruction
	fn     *ssa.Function
}

type evalKey struct {
	v   ssa.Value
	ctx *Ctx
}

// Engine evaluates SSA values to provenance terms.
type Engine struct {
	stepSite  map[*ssa.Function][]ssa.CallInstruction
	stepOther map[*ssa.Function]bool
	recovers  int // 0 unknown, 1 no repository function calls recover, 2 some does
	P         *load.Program
	// Atoms are repository functions that are not inlined: a call to one is
	// a named call term (their own correctness is decided elsewhere).
	Atoms map[*ssa.Function]bool

	ctxs        map[ctxKey]*Ctx
	unknown     map[*ssa.Function]*Ctx
	memo        map[evalKey]*Term
	inprog      map[evalKey]bool
	branchCtx   map[branchKey]*Ctx
	errCtor     map[*ssa.Function]bool // repository functions that always return a non-nil error
	foldPH      map[evalKey]*Term      // accumulator placeholders while a loop-carried value is being unrolled
	foldHits    int
	getters     map[*ssa.Function]string // nil-safe getter -> field name ("" = not a getter)
	clones      map[*ssa.Function]int    // 1 = clone-shaped, -1 = not
	elemops     map[*ssa.Function]string
	noret       map[*ssa.Function]int
	writes      map[writesKey][]*Write
	allWrites   []*Write
	writesBuilt bool
	phase       int
	deferCount  int
	graphs      map[graphKey]*Graph
	graphBusy   map[graphKey]bool
	active      []*Ctx // call strings of the loads being resolved (innermost last)
	gatesAt     map[gatesAtKey][]*Alt
	pathMemo    map[pathKey][]*Alt
	pathBusy    map[pathKey]bool
	Assume      map[string]bool // condition term string -> assumed truth value
	// Trace, when set, receives diagnostics.
	Trace func(format string, args ...any)
	// Undecided collects constructs the engine could not model.
	Undecided []string
}

// NewEngine creates an engine over a loaded program.
func NewEngine(p *load.Program) *Engine {
	return &Engine{
		P: p, Atoms: map[*ssa.Function]bool{},
		ctxs: map[ctxKey]*Ctx{}, unknown: map[*ssa.Function]*Ctx{},
		memo: map[evalKey]*Term{}, inprog: map[evalKey]bool{},
		getters: map[*ssa.Function]string{}, clones: map[*ssa.Function]int{}, elemops: map[*ssa.Function]string{},
		noret: map[*ssa.Function]int{}, writes: map[writesKey][]*Write{},
		graphs: map[graphKey]*Graph{}, graphBusy: map[graphKey]bool{}, pathMemo: map[pathKey][]*Alt{}, pathBusy: map[pathKey]bool{},
		Assume: map[string]bool{},
	}
}

// Reset drops memoised results (after changing Assume or Atoms).
func (e *Engine) Reset() {
	e.memo = map[evalKey]*Term{}
	e.graphs = map[graphKey]*Graph{}
	e.pathMemo = map[pathKey][]*Alt{}
}

// Root returns the root context of entry function fn.
func (e *Engine) Root(fn *ssa.Function) *Ctx {
	k := ctxKey{nil, nil, fn}
	if c := e.ctxs[k]; c != nil {
		return c
	}
	c := &Ctx{Fn: fn}
	e.ctxs[k] = c
	return c
}

// UnknownCtx returns the context-free context of fn.
func (e *Engine) UnknownCtx(fn *ssa.Function) *Ctx {
	if c := e.unknown[fn]; c != nil {
		return c
	}
	c := &Ctx{Fn: fn, Unknown: true}
	e.unknown[fn] = c
	return c
}

// Enter returns the context of callee entered from call in ctx.
func (e *Engine) Enter(ctx *Ctx, call ssa.CallInstruction, callee *ssa.Function) *Ctx {
	k := ctxKey{ctx, call, callee}
	if c := e.ctxs[k]; c != nil {
		return c
	}
	c := &Ctx{Parent: ctx, Call: call, Fn: callee, depth: ctx.depth + 1}
	e.ctxs[k] = c
	return c
}

// aliasOf translates the name of an exported function's own parameter (as
// used by context-free write places) into the argument bound to it on ctx's
// call string, if that function is on the call string.
func (e *Engine) aliasOf(base string, ctx *Ctx) (string, []string) {
	if !strings.HasPrefix(base, "$") {
		return base, nil
	}
	for c := ctx; c != nil; c = c.Parent {
		if c.Call == nil || c.Unknown {
			continue
		}
		prefix := "$" + shortFn(c.Fn) + "#"
		if !strings.HasPrefix(base, prefix) {
			continue
		}
		for i, p := range c.Fn.Params {
			if base == fmt.Sprintf("%s%d", prefix, i) && i < len(c.Call.Common().Args) {
				_ = p
				t := e.Eval(c.Call.Common().Args[i], c.Parent)
				b, path := splitPlace(t)
				return b.String(), path
			}
		}
	}
	return base, nil
}

// ctxFor finds the frame of fn on ctx's call string (or on one of the
// alternative call strings given), else the unknown context.
func (e *Engine) ctxFor(fn *ssa.Function, ctx *Ctx, more ...*Ctx) *Ctx {
	for _, start := range append([]*Ctx{ctx}, more...) {
		for c := start; c != nil; c = c.Parent {
			if c.Fn == fn {
				return c
			}
		}
	}
	return e.UnknownCtx(fn)
}

// activeFrame returns the frame of fn on the call string of the load
// currently being resolved, if any.
func (e *Engine) activeFrame(fn *ssa.Function) *Ctx {
	for _, start := range e.active {
		for c := start; c != nil; c = c.Parent {
			if c.Fn == fn && !c.Unknown {
				return c
			}
		}
	}
	return nil
}

func shortFn(fn *ssa.Function) string { return load.FuncName(fn) }

func (e *Engine) trace(format string, args ...any) {
	if e.Trace != nil {
		e.Trace(format, args...)
	}
}

func (e *Engine) mk(op, name string, v ssa.Value, args ...*Term) *Term {
	t := &Term{Op: op, Name: name, Args: args, Val: v}
	if v != nil {
		t.Pos = v.Pos()
		t.Typ = v.Type()
	}
	return normalize(t)
}

func (e *Engine) site(pos token.Pos) string { return e.P.Pos(pos) }

// Eval evaluates v in ctx.
func (e *Engine) Eval(v ssa.Value, ctx *Ctx) *Term {
	k := evalKey{v, ctx}
	if t, ok := e.memo[k]; ok {
		return t
	}
	if ph, ok := e.foldPH[k]; ok {
		e.foldHits++
		e.deferCount++ // whatever is computed from the placeholder is a template, not a value
		return ph
	}
	if e.inprog[k] {
		// cyclic definition that is not a recognised induction variable;
		// everything computed from this placeholder is provisional
		e.deferCount++
		return e.mk(OpUnknown, "cycle:"+v.Name(), v)
	}
	if ctx.depth > 40 {
		return e.mk(OpUnknown, "depth", v)
	}
	e.inprog[k] = true
	dc := e.deferCount
	t := e.eval(v, ctx)
	delete(e.inprog, k)
	if e.deferCount != dc {
		return t // computed against an incomplete write set: do not memoise
	}
	if t.Pos == token.NoPos {
		t.Pos = v.Pos()
	}
	if t.Typ == nil {
		t.Typ = v.Type()
	}
	e.memo[k] = t
	return t
}

func constTerm(c *ssa.Const) *Term {
	t := &Term{Op: OpConst, Typ: c.Type(), Val: c}
	switch {
	case c.Value == nil:
		t.Name = "nil"
		if b, ok := c.Type().Underlying().(*types.Basic); ok {
			switch {
			case b.Info()&types.IsNumeric != 0:
				t.Name = "0"
			case b.Info()&types.IsString != 0:
				t.Name = `""`
			case b.Info()&types.IsBoolean != 0:
				t.Name = "false"
			}
		} else if _, ok := c.Type().Underlying().(*types.Struct); ok {
			t.Name = "zero"
		} else if _, ok := c.Type().Underlying().(*types.Array); ok {
			t.Name = "zero"
		}
	case c.Value.Kind() == constant.String:
		t.Name = fmt.Sprintf("%q", constant.StringVal(c.Value))
	case c.Value.Kind() == constant.Bool:
		t.Name = fmt.Sprint(constant.BoolVal(c.Value))
	case c.Value.Kind() == constant.Int:
		t.Name = c.Value.ExactString()
	default:
		t.Name = c.Value.ExactString()
	}
	return t
}

func (e *Engine) eval(v ssa.Value, ctx *Ctx) *Term {
	switch x := v.(type) {
	case *ssa.Const:
		return constTerm(x)
	case *ssa.Parameter:
		return e.evalParam(x, ctx)
	case *ssa.FreeVar:
		return e.evalFreeVar(x, ctx)
	case *ssa.Global:
		return e.mk(OpAddrG, globalName(x), x)
	case *ssa.Function:
		return e.mk(OpFunc, shortFn(x), x)
	case *ssa.Builtin:
		return e.mk(OpFunc, "builtin."+x.Name(), x)
	case *ssa.Alloc:
		t := e.mk(OpNew, load.TypeString(x.Type().Underlying().(*types.Pointer).Elem())+"#"+e.site(x.Pos())+"/"+x.Name()+"@"+shortFn(x.Parent()), x)
		t.Ctx = ctx
		return t
	case *ssa.FieldAddr, *ssa.IndexAddr:
		return e.mk(OpAddr, "", v, e.place(v, ctx))
	case *ssa.UnOp:
		switch x.Op {
		case token.MUL:
			return e.load(e.place(x.X, ctx), ctx, x)
		case token.ARROW:
			return e.mk(OpUn, "<-", x, e.Eval(x.X, ctx))
		default:
			return e.mk(OpUn, x.Op.String(), x, e.Eval(x.X, ctx))
		}
	case *ssa.BinOp:
		return e.mk(OpBin, x.Op.String(), x, e.Eval(x.X, ctx), e.Eval(x.Y, ctx))
	case *ssa.Field:
		return e.fieldOf(e.Eval(x.X, ctx), fieldName(x.X.Type(), x.Field), x, ctx)
	case *ssa.Index:
		return e.mk(OpIndex, "", x, e.Eval(x.X, ctx), e.Eval(x.Index, ctx))
	case *ssa.Lookup:
		return e.mk(OpLookup, "", x, e.Eval(x.X, ctx), e.Eval(x.Index, ctx))
	case *ssa.Slice:
		var xt *Term
		if _, isPtr := x.X.Type().Underlying().(*types.Pointer); isPtr {
			// slicing an array through its address: the array's value
			xt = e.load(e.place(x.X, ctx), ctx, x)
			if xt.Typ == nil {
				xt.Typ = x.X.Type()
			}
		} else {
			xt = e.Eval(x.X, ctx)
		}
		lo, hi := C(""), C("")
		if x.Low != nil {
			lo = e.Eval(x.Low, ctx)
		}
		if x.High != nil {
			hi = e.Eval(x.High, ctx)
		}
		if x.Low == nil && x.High == nil && x.Max == nil {
			if _, isSlice := x.X.Type().Underlying().(*types.Slice); isSlice {
				return xt
			}
		}
		name := ""
		if p, ok := x.X.Type().Underlying().(*types.Pointer); ok {
			if a, ok := p.Elem().Underlying().(*types.Array); ok {
				name = fmt.Sprintf("arr%d", a.Len()) // slicing an array of statically known length
			}
		}
		return e.mk(OpSlice, name, x, xt, lo, hi)
	case *ssa.Convert:
		return e.mk(OpConv, load.TypeString(x.Type()), x, e.Eval(x.X, ctx))
	case *ssa.ChangeType:
		return e.mk(OpConv, load.TypeString(x.Type()), x, e.Eval(x.X, ctx))
	case *ssa.ChangeInterface:
		return e.Eval(x.X, ctx)
	case *ssa.MakeInterface:
		return e.Eval(x.X, ctx)
	case *ssa.SliceToArrayPointer:
		return e.Eval(x.X, ctx)
	case *ssa.TypeAssert:
		if x.CommaOk {
			return e.mk(OpAssert, load.TypeString(x.AssertedType)+",ok", x, e.Eval(x.X, ctx))
		}
		return e.mk(OpAssert, load.TypeString(x.AssertedType), x, e.Eval(x.X, ctx))
	case *ssa.Extract:
		return e.evalExtract(x, ctx)
	case *ssa.Call:
		return e.evalCall(x, ctx, -1)
	case *ssa.Phi:
		return e.evalPhi(x, ctx)
	case *ssa.MakeSlice:
		if t := e.filledByCopies(x, ctx); t != nil {
			return t
		}
		capT := e.Eval(x.Cap, ctx)
		return e.mk(OpMake, load.TypeString(x.Type())+"#"+e.site(x.Pos())+"@"+shortFn(x.Parent()), x, e.Eval(x.Len, ctx), capT)
	case *ssa.MakeMap:
		return e.mk(OpMake, "map#"+e.site(x.Pos()), x)
	case *ssa.MakeChan:
		return e.mk(OpMake, "chan#"+e.site(x.Pos()), x)
	case *ssa.MakeClosure:
		args := []*Term{}
		for _, b := range x.Bindings {
			args = append(args, e.Eval(b, ctx))
		}
		return e.mk(OpClosure, shortFn(x.Fn.(*ssa.Function)), x, args...)
	case *ssa.Select:
		args := []*Term{}
		for _, st := range x.States {
			args = append(args, e.Eval(st.Chan, ctx))
		}
		name := "blocking"
		if !x.Blocking {
			name = "nonblocking"
		}
		return e.mk(OpSelect, name+"#"+e.site(x.Pos()), x, args...)
	case *ssa.Range:
		return e.mk(OpCall, "range", x, e.Eval(x.X, ctx))
	case *ssa.Next:
		return e.mk(OpCall, "next", x, e.Eval(x.Iter, ctx))
	}
	e.Undecided = append(e.Undecided, fmt.Sprintf("unmodelled SSA value %T at %s", v, e.site(v.Pos())))
	return e.mk(OpUnknown, fmt.Sprintf("%T", v), v)
}

func globalName(g *ssa.Global) string { return load.GlobalName(g) }

func fieldName(t types.Type, idx int) string {
	if p, ok := t.Underlying().(*types.Pointer); ok {
		t = p.Elem()
	}
	if st, ok := t.Underlying().(*types.Struct); ok && idx < st.NumFields() {
		return st.Field(idx).Name()
	}
	return fmt.Sprintf("#%d", idx)
}

func (e *Engine) evalParam(x *ssa.Parameter, ctx *Ctx) *Term {
	fn := x.Parent()
	idx := -1
	for i, p := range fn.Params {
		if p == x {
			idx = i
		}
	}
	own := func() *Term {
		return e.mk(OpParam, fmt.Sprintf("%s#%d", shortFn(fn), idx), x)
	}
	if ctx.Fn != fn {
		// value of an enclosing function reached through a closure: resolve there
		return e.Eval(x, e.ctxFor(fn, ctx))
	}
	if !ctx.Unknown {
		if ctx.Call == nil {
			return own()
		}
		if sc := ctx.Call.Common().StaticCallee(); sc != fn {
			// entered through a function value: a frame for fn exists only when the
			// value was resolved to fn (a known function literal), so the call's
			// arguments are fn's parameters
			if sc == nil && !ctx.Call.Common().IsInvoke() && idx >= 0 && idx < len(ctx.Call.Common().Args) {
				return e.Eval(ctx.Call.Common().Args[idx], ctx.Parent)
			}
			return own()
		}
		args := ctx.Call.Common().Args
		if ctx.Call.Common().IsInvoke() {
			// static callee of an invoke is never used
			return own()
		}
		if idx < len(args) {
			return e.Eval(args[idx], ctx.Parent)
		}
		return own()
	}
	// unknown context. If the function is on the call string of the load being
	// resolved (e.active), its frame there is the relevant one.
	if fr := e.activeFrame(fn); fr != nil {
		e.deferCount++ // depends on the active call string: not memoisable
		return e.Eval(x, fr)
	}
	// otherwise through all static callers, unless the function is API
	callers := e.P.Callers[fn]
	sites, complete := e.stepSites(fn)
	if len(callers)+len(sites) == 0 || isExported(fn) || !complete {
		return own()
	}
	var alts []*Term
	for _, c := range sites {
		// handed to a helper as a step and called there through the parameter
		if idx >= len(c.Common().Args) {
			continue
		}
		if fr := e.activeFrame(c.Parent()); fr != nil {
			e.deferCount++
			alts = append(alts, e.Eval(c.Common().Args[idx], fr))
			continue
		}
		alts = append(alts, e.Eval(c.Common().Args[idx], e.UnknownCtx(c.Parent())))
	}
	for _, c := range callers {
		if c.Common().StaticCallee() != fn {
			continue
		}
		if c.Parent() == fn {
			continue // direct recursion
		}
		if idx >= len(c.Common().Args) {
			continue
		}
		if fr := e.activeFrame(c.Parent()); fr != nil {
			e.deferCount++
			alts = append(alts, e.Eval(c.Common().Args[idx], fr))
			continue
		}
		alts = append(alts, e.Eval(c.Common().Args[idx], e.UnknownCtx(c.Parent())))
	}
	if len(alts) == 0 {
		return own()
	}
	return e.mk(OpPhi, "", x, alts...)
}

func isExported(fn *ssa.Function) bool {
	if fn.Parent() != nil || fn.Object() == nil {
		return false
	}
	if !fn.Object().Exported() {
		return false
	}
	if recv := fn.Signature.Recv(); recv != nil {
		t := recv.Type()
		if p, ok := t.(*types.Pointer); ok {
			t = p.Elem()
		}
		if n, ok := t.(*types.Named); ok {
			return n.Obj().Exported()
		}
	}
	return true
}

// stepSites lists the calls through a function value that can only call fn:
// fn (or a literal of it) is passed to a repository helper whose parameter is
// used for nothing but calling it, or is called directly as a literal.
// complete is false when fn is used as a value in any other way.
func (e *Engine) stepSites(fn *ssa.Function) (sites []ssa.CallInstruction, complete bool) {
	if e.stepSite == nil {
		e.stepSite = map[*ssa.Function][]ssa.CallInstruction{}
		e.stepOther = map[*ssa.Function]bool{}
		target := func(v ssa.Value) *ssa.Function {
			for {
				if ct, ok := v.(*ssa.ChangeType); ok {
					v = ct.X
					continue
				}
				break
			}
			switch x := v.(type) {
			case *ssa.Function:
				if e.P.InRepo(x) && x.Blocks != nil {
					return x
				}
			case *ssa.MakeClosure:
				if f, ok := x.Fn.(*ssa.Function); ok && e.P.InRepo(f) {
					return f
				}
			}
			return nil
		}
		for _, host := range e.P.Funcs {
			for _, b := range host.Blocks {
				for _, in := range b.Instrs {
					if _, ok := in.(*ssa.DebugRef); ok {
						continue
					}
					if _, ok := in.(*ssa.MakeClosure); ok {
						continue // the literal's uses are those of the closure value
					}
					if _, ok := in.(*ssa.ChangeType); ok {
						continue
					}
					var ops []*ssa.Value
					for _, op := range in.Operands(ops) {
						if op == nil || *op == nil {
							continue
						}
						f := target(*op)
						if f == nil {
							continue
						}
						c, isCall := in.(ssa.CallInstruction)
						if isCall && c.Common().Value == *op {
							if _, lit := (*op).(*ssa.MakeClosure); lit {
								e.stepSite[f] = append(e.stepSite[f], c) // literal called in place
							}
							continue // (a static call is not a value use)
						}
						resolved := false
						if isCall {
							if h := c.Common().StaticCallee(); h != nil && e.P.InRepo(h) && h.Blocks != nil {
								for ai, a := range c.Common().Args {
									if a != *op || ai >= len(h.Params) {
										continue
									}
									refs := h.Params[ai].Referrers()
									all := refs != nil && len(*refs) > 0
									var calls []ssa.CallInstruction
									if refs != nil {
										for _, r := range *refs {
											if _, ok := r.(*ssa.DebugRef); ok {
												continue
											}
											rc, ok := r.(ssa.CallInstruction)
											if !ok || rc.Common().Value != ssa.Value(h.Params[ai]) {
												all = false
												break
											}
											n := 0
											for _, ra := range rc.Common().Args {
												if ra == ssa.Value(h.Params[ai]) {
													n++
												}
											}
											if n > 0 {
												all = false
												break
											}
											calls = append(calls, rc)
										}
									}
									if all {
										resolved = true
										e.stepSite[f] = append(e.stepSite[f], calls...)
									}
								}
							}
						}
						if !resolved {
							e.stepOther[f] = true
						}
					}
				}
			}
		}
	}
	return e.stepSite[fn], !e.stepOther[fn]
}

// filledByCopies: a buffer made with exactly the summed length of several
// sources and filled, in its own block and before any other use, by copies that
// tile it in order (`m := make([]byte, len(a)+len(b)); copy(m, a);
// copy(m[len(a):], b)`) is the concatenation of the sources, as the appending
// form `append(a, b...)` is.
func (e *Engine) filledByCopies(mk *ssa.MakeSlice, ctx *Ctx) *Term {
	if mk.Referrers() == nil {
		return nil
	}
	type cp struct {
		call *ssa.Call
		low  ssa.Value
		src  ssa.Value
	}
	var cps []cp
	var others []ssa.Instruction
	blk := mk.Block()
	for _, r := range *mk.Referrers() {
		switch x := r.(type) {
		case *ssa.DebugRef:
		case *ssa.Call:
			if isBuiltin(x, "copy") && x.Call.Args[0] == ssa.Value(mk) && x.Call.Args[1] != ssa.Value(mk) && x.Block() == blk {
				cps = append(cps, cp{x, nil, x.Call.Args[1]})
			} else {
				others = append(others, x)
			}
		case *ssa.Slice:
			var only *ssa.Call
			n := 0
			if x.X == ssa.Value(mk) && x.Referrers() != nil {
				for _, r2 := range *x.Referrers() {
					if _, ok := r2.(*ssa.DebugRef); ok {
						continue
					}
					n++
					if c, ok := r2.(*ssa.Call); ok && isBuiltin(c, "copy") && c.Call.Args[0] == ssa.Value(x) && c.Block() == blk {
						only = c
					}
				}
			}
			if n == 1 && only != nil && x.Max == nil {
				cps = append(cps, cp{only, x.Low, only.Call.Args[1]})
			} else {
				others = append(others, x)
			}
		default:
			others = append(others, r)
		}
	}
	if len(cps) < 2 {
		return nil
	}
	sort.Slice(cps, func(i, j int) bool { return instrIndex(cps[i].call) < instrIndex(cps[j].call) })
	last := cps[len(cps)-1].call
	for _, o := range others {
		if !before(last, o) {
			return nil
		}
	}
	var parts []*Term
	var sum *Term
	for i, c := range cps {
		low := C("0")
		if c.low != nil {
			low = StripConv(e.Eval(c.low, ctx))
		}
		if i == 0 {
			if !low.IsConst("0") {
				return nil
			}
		} else if !Eq(low, sum) {
			return nil
		}
		src := e.Eval(c.src, ctx)
		parts = append(parts, src)
		ln := N(OpLen, "", src)
		if sum == nil {
			sum = ln
		} else {
			sum = N(OpBin, "+", sum, ln)
		}
	}
	if !Eq(StripConv(e.Eval(mk.Len, ctx)), sum) {
		return nil
	}
	return e.mk(OpConcat, "", mk, parts...)
}

// StepSites exposes stepSites.
func (e *Engine) StepSites(fn *ssa.Function) ([]ssa.CallInstruction, bool) { return e.stepSites(fn) }

func usedAsValue(fn *ssa.Function) bool {
	refs := fn.Referrers()
	if refs != nil {
		return len(*refs) > 0
	}
	return false
}

func (e *Engine) evalFreeVar(x *ssa.FreeVar, ctx *Ctx) *Term {
	fn := x.Parent()
	idx := -1
	for i, fv := range fn.FreeVars {
		if fv == x {
			idx = i
		}
	}
	parent := fn.Parent()
	if parent == nil || idx < 0 {
		return e.mk(OpUnknown, "freevar", x)
	}
	for _, b := range parent.Blocks {
		for _, in := range b.Instrs {
			if mc, ok := in.(*ssa.MakeClosure); ok && mc.Fn == fn {
				return e.Eval(mc.Bindings[idx], e.ctxFor(parent, ctx))
			}
		}
	}
	return e.mk(OpUnknown, "freevar", x)
}

// evalPhi: loop-header phis become induction terms, others alternatives.
func (e *Engine) evalPhi(x *ssa.Phi, ctx *Ctx) *Term {
	b := x.Block()
	// induction variable: exactly one incoming edge defines the value in
	// terms of the phi itself by a constant step
	var init ssa.Value
	var step *Term
	ok := true
	for i, edge := range x.Edges {
		pred := b.Preds[i]
		if b.Dominates(pred) { // back edge
			s := e.stepOf(edge, x)
			if s == nil {
				ok = false
				break
			}
			if step != nil && !Eq(step, s) {
				ok = false
				break
			}
			step = s
		} else {
			if init != nil && init != edge {
				ok = false
				break
			}
			init = edge
		}
	}
	if ok && step != nil && init != nil {
		return e.mk(OpIter, loopID(b.Parent(), b.Index)+"/"+x.Comment, x, e.Eval(init, ctx), step)
	}
	if t := e.foldPhi(x, ctx); t != nil {
		return t
	}
	var alts []*Term
	g := e.GraphOf(b.Parent(), ctx)
	for i, edge := range x.Edges {
		pred := b.Preds[i]
		if !g.Reach[pred.Index] || !hasEdge(g, pred.Index, b.Index) {
			continue
		}
		alts = append(alts, e.Eval(edge, ctx))
	}
	if len(alts) == 0 {
		return e.mk(OpUnknown, "deadphi", x)
	}
	if t := e.phiAsIte(x, g, ctx); t != nil {
		return t
	}
	return e.mk(OpPhi, "", x, alts...)
}

// foldPhi unrolls a loop-carried value (an accumulator such as
// `errs = multierr.Append(errs, check(row))` or `out = append(out, x)`) of a
// counted loop whose trip count is a constant N in this context (a loop over
// a literal table): the value after the loop is step(…step(init, 0)…, N-1).
// The loop must be left only through its header.
func (e *Engine) foldPhi(x *ssa.Phi, ctx *Ctx) *Term {
	b := x.Block()
	if len(x.Edges) != 2 || len(b.Preds) != 2 {
		return nil
	}
	var init, next ssa.Value
	for i, edge := range x.Edges {
		if b.Dominates(b.Preds[i]) {
			next = edge
		} else {
			init = edge
		}
	}
	if init == nil || next == nil {
		return nil
	}
	g := e.GraphOf(b.Parent(), ctx)
	l := g.LoopOf(b.Index)
	if l == nil || l.Head != b.Index {
		return nil
	}
	for u := range l.Body {
		if u == l.Head {
			continue
		}
		for _, v := range g.Succ[u] {
			if !l.Body[v] {
				return nil // break / return from inside the body
			}
		}
	}
	// uses of the accumulator inside the loop: only the step itself
	for _, ref := range *x.Referrers() {
		rb := ref.Block()
		if rb != nil && l.Body[rb.Index] && ref != next.(ssa.Instruction) {
			if _, isPhi := ref.(*ssa.Phi); isPhi && rb == b {
				continue
			}
			return nil
		}
	}
	if _, ok := next.(ssa.Instruction); !ok {
		return nil
	}
	// the induction variable and the constant trip count
	iff, ok := b.Instrs[len(b.Instrs)-1].(*ssa.If)
	if !ok || !l.Body[b.Succs[0].Index] {
		return nil
	}
	cond := StripConv(e.Eval(iff.Cond, ctx))
	if cond.Op != OpBin || cond.Name != "<" {
		return nil
	}
	it := StripConv(cond.Args[0])
	n, okN := constInt(StripConv(cond.Args[1]))
	if it.Op != OpIter || len(it.Args) != 2 || !it.Args[0].IsConst("0") || !it.Args[1].IsConst("1") || !okN || n < 0 || n > 32 || !IsSeqLen(cond.Args[1]) {
		return nil
	}
	k := evalKey{x, ctx}
	if _, busy := e.foldPH[k]; busy {
		return nil
	}
	ph := &Term{Op: OpUnknown, Name: "acc:" + loopID(b.Parent(), b.Index) + "/" + x.Name(), Val: x, Typ: x.Type()}
	if e.foldPH == nil {
		e.foldPH = map[evalKey]*Term{}
	}
	hits0, dc0 := e.foldHits, e.deferCount
	e.foldPH[k] = ph
	tmpl := e.Eval(next, ctx)
	delete(e.foldPH, k)
	mine := e.foldHits - hits0
	if e.deferCount-dc0 >= mine {
		e.deferCount -= mine // the placeholder is resolved below: nothing provisional remains from it
	}
	acc := e.Eval(init, ctx)
	phs, its := ph.String(), it.String()
	for i := int64(0); i < n; i++ {
		kc := C(fmt.Sprint(i))
		cur := acc
		acc = Subst(tmpl, func(t *Term) *Term {
			switch {
			case t.Op == OpUnknown && t.String() == phs:
				return cur
			case t.Op == OpIter && t.String() == its:
				return kc
			}
			return nil
		})
	}
	return acc
}

// phiAsIte recognises a two-armed phi whose arms are selected by the If that
// ends the phi block's immediate dominator, and keeps the condition.
func (e *Engine) phiAsIte(x *ssa.Phi, g *Graph, ctx *Ctx) *Term {
	b := x.Block()
	if len(x.Edges) != 2 || len(b.Preds) != 2 {
		return nil
	}
	d := b.Idom()
	if d == nil {
		return nil
	}
	iff, ok := d.Instrs[len(d.Instrs)-1].(*ssa.If)
	if !ok || len(g.Succ[d.Index]) != 2 {
		return nil
	}
	side := func(p *ssa.BasicBlock) int {
		if p == d {
			if d.Succs[0] == b && d.Succs[1] != b {
				return 0
			}
			if d.Succs[1] == b && d.Succs[0] != b {
				return 1
			}
			return -1
		}
		for k := 0; k < 2; k++ {
			s := d.Succs[k]
			if len(s.Preds) == 1 && (s == p || s.Dominates(p)) {
				return k
			}
		}
		return -1
	}
	s0, s1 := side(b.Preds[0]), side(b.Preds[1])
	if s0 < 0 || s1 < 0 || s0 == s1 {
		return nil
	}
	cond := e.Eval(iff.Cond, ctx)
	vt, vf := e.Eval(x.Edges[0], ctx), e.Eval(x.Edges[1], ctx)
	if s0 == 1 {
		vt, vf = vf, vt
	}
	return e.mk(OpIte, "", x, cond, vt, vf)
}

// stepOf recognises edge = phi + c (or phi - c), returning the step term.
func (e *Engine) stepOf(edge ssa.Value, phi *ssa.Phi) *Term {
	bo, ok := edge.(*ssa.BinOp)
	if !ok {
		return nil
	}
	if bo.X != phi {
		return nil
	}
	c, ok := bo.Y.(*ssa.Const)
	if !ok {
		return nil
	}
	switch bo.Op {
	case token.ADD:
		return constTerm(c)
	case token.SUB:
		return e.mk(OpUn, "-", nil, constTerm(c))
	}
	return nil
}

func (e *Engine) evalExtract(x *ssa.Extract, ctx *Ctx) *Term {
	switch tup := x.Tuple.(type) {
	case *ssa.Call:
		return e.evalCall(tup, ctx, x.Index)
	case *ssa.TypeAssert:
		t := e.Eval(tup, ctx)
		return e.mk(OpRes, fmt.Sprint(x.Index), x, t)
	case *ssa.Lookup:
		t := e.Eval(tup, ctx)
		return e.mk(OpRes, fmt.Sprint(x.Index), x, t)
	case *ssa.UnOp: // channel receive with ok
		return e.mk(OpRes, fmt.Sprint(x.Index), x, e.Eval(tup, ctx))
	case *ssa.Next:
		return e.mk(OpRes, fmt.Sprint(x.Index), x, e.Eval(tup, ctx))
	case *ssa.Select:
		return e.mk(OpRes, fmt.Sprint(x.Index), x, e.Eval(tup, ctx))
	}
	return e.mk(OpUnknown, "extract", x)
}

// CalleeOf returns the static callee with a body in the repository that the
// engine will descend into, or nil.
func (e *Engine) CalleeOf(c ssa.CallInstruction) *ssa.Function {
	cal := c.Common().StaticCallee()
	if cal == nil || !e.P.InRepo(cal) || e.Atoms[cal] {
		return nil
	}
	if e.getterField(cal) != "" || e.isClone(cal) || e.elemOp(cal) != "" {
		return nil
	}
	return cal
}

// evalCall evaluates result idx of call (idx<0: the single result / tuple).
func (e *Engine) evalCall(call *ssa.Call, ctx *Ctx, idx int) *Term {
	com := call.Common()
	if alt := ctx.choices[call]; alt != nil {
		i := idx
		if i < 0 {
			i = 0
		}
		if i < len(alt.Results) {
			return alt.Results[i]
		}
	}
	wrap := func(t *Term) *Term {
		if idx < 0 {
			return t
		}
		return e.mk(OpRes, fmt.Sprint(idx), call, t)
	}
	if com.IsInvoke() {
		args := []*Term{e.Eval(com.Value, ctx)}
		for _, a := range com.Args {
			args = append(args, e.Eval(a, ctx))
		}
		t := e.mk(OpInvoke, com.Method.Name()+"#"+e.site(call.Pos()), call, args...)
		return wrap(t)
	}
	if b, ok := com.Value.(*ssa.Builtin); ok {
		return wrap(e.evalBuiltin(b, call, ctx))
	}
	cal := com.StaticCallee()
	if cal == nil {
		// call of a function value
		fv := e.Eval(com.Value, ctx)
		args := []*Term{fv}
		for _, a := range com.Args {
			args = append(args, e.Eval(a, ctx))
		}
		if fv.Op == OpClosure || fv.Op == OpFunc {
			if target := e.funcByShort(fv.Name); target != nil && e.P.InRepo(target) {
				return e.inlineCall(call, target, ctx, idx)
			}
		}
		return wrap(e.mk(OpCall, "dynamic#"+e.site(call.Pos()), call, args...))
	}
	if f := e.getterField(cal); f != "" {
		return e.fieldOf(e.Eval(com.Args[0], ctx), f, call, ctx)
	}
	if e.isClone(cal) {
		return e.mk(OpCopyOf, "", call, e.Eval(com.Args[0], ctx))
	}
	if op := e.elemOp(cal); op != "" {
		return e.mk(OpElemOp, op, call, e.Eval(com.Args[0], ctx), e.Eval(com.Args[1], ctx))
	}
	if e.P.InRepo(cal) && !e.Atoms[cal] {
		return e.inlineCall(call, cal, ctx, idx)
	}
	// binary.LittleEndian.AppendUintN(b, v) is append(b, <the N/8 little-endian bytes of v>...)
	if n := shortFn(cal); strings.HasPrefix(n, "(encoding/binary.littleEndian).AppendUint") && len(com.Args) == 3 {
		le := e.mk(OpCall, "le.bytes"+strings.TrimPrefix(n, "(encoding/binary.littleEndian).AppendUint"), call, e.Eval(com.Args[2], ctx))
		return wrap(e.mk(OpConcat, "", call, e.Eval(com.Args[1], ctx), le))
	}
	args := []*Term{}
	for _, a := range com.Args {
		args = append(args, e.Eval(a, ctx))
	}
	name := shortFn(cal)
	if freshConstructors[name] {
		name += "#" + e.site(call.Pos())
	}
	return wrap(e.mk(OpCall, name, call, args...))
}

// freshConstructors are library functions returning a new mutable object on
// every call: their call terms carry the call site so two objects differ.
var freshConstructors = map[string]bool{
	"crypto/x509.NewCertPool": true,
	"(crypto.Hash).New":       true,
	"crypto/sha512.New384":    true,
	"context.WithTimeout":     true,
	"context.Background":      false,
}

func (e *Engine) funcByShort(name string) *ssa.Function {
	for _, f := range e.P.Funcs {
		if shortFn(f) == name {
			return f
		}
	}
	return nil
}

// inlineCall evaluates the result of a repository callee from its returns.
func (e *Engine) inlineCall(call ssa.CallInstruction, cal *ssa.Function, ctx *Ctx, idx int) *Term {
	sub := e.Enter(ctx, call, cal)
	if ctx.Unknown {
		sub = e.Enter(ctx, call, cal)
	}
	var alts []*Term
	var rets []*ssa.BasicBlock
	g := e.GraphOf(cal, sub)
	for _, b := range cal.Blocks {
		if !g.Reach[b.Index] || g.CutAt[b.Index] >= 0 {
			continue
		}
		ret, ok := b.Instrs[len(b.Instrs)-1].(*ssa.Return)
		if !ok {
			continue
		}
		i := idx
		if i < 0 {
			i = 0
		}
		if i >= len(ret.Results) {
			continue
		}
		if e.RetIsFail(ret) && i != len(ret.Results)-1 {
			continue // non-error results of a failing return are never used
		}
		alts = append(alts, e.Eval(ret.Results[i], sub))
		rets = append(rets, b)
	}
	if len(alts) == 0 {
		return e.mk(OpUnknown, "noreturn:"+shortFn(cal), call.Value())
	}
	// `if c { return a }; return b`: keep the selecting condition
	if len(alts) == 2 && len(cal.Blocks) > 0 {
		d := cal.Blocks[0]
		if iff, ok := d.Instrs[len(d.Instrs)-1].(*ssa.If); ok && len(g.Succ[0]) == 2 && d.Succs[0] != d.Succs[1] {
			side := func(r *ssa.BasicBlock) int {
				for k := 0; k < 2; k++ {
					s := d.Succs[k]
					if len(s.Preds) == 1 && (s == r || s.Dominates(r)) {
						return k
					}
				}
				return -1
			}
			s0, s1 := side(rets[0]), side(rets[1])
			if s0 >= 0 && s1 >= 0 && s0 != s1 {
				vt, vf := alts[0], alts[1]
				if s0 == 1 {
					vt, vf = vf, vt
				}
				return e.mk(OpIte, "", call.Value(), e.Eval(iff.Cond, sub), vt, vf)
			}
		}
	}
	return e.mk(OpPhi, "", call.Value(), alts...)
}

func (e *Engine) evalBuiltin(b *ssa.Builtin, call *ssa.Call, ctx *Ctx) *Term {
	args := []*Term{}
	for _, a := range call.Call.Args {
		args = append(args, e.Eval(a, ctx))
	}
	switch b.Name() {
	case "len":
		return e.mk(OpLen, "", call, args[0])
	case "cap":
		return e.mk(OpCap, "", call, args[0])
	case "append":
		if len(args) == 2 {
			return e.mk(OpConcat, "", call, args[0], args[1])
		}
		return e.mk(OpConcat, "", call, args...)
	case "copy":
		return e.mk(OpCall, "builtin.copy", call, args...)
	case "min", "max":
		return e.mk(OpCall, "builtin."+b.Name(), call, args...)
	}
	return e.mk(OpCall, "builtin."+b.Name(), call, args...)
}

// fieldOf selects field name of a struct or pointer-to-struct term.
func (e *Engine) fieldOf(x *Term, name string, v ssa.Value, ctx *Ctx) *Term {
	switch x.Op {
	case OpStruct:
		for _, fi := range x.Args {
			if fi.Name == name {
				return fi.Args[0]
			}
		}
		return &Term{Op: OpConst, Name: "zero", Val: v}
	case OpPhi:
		var alts []*Term
		for _, a := range x.Args {
			alts = append(alts, e.fieldOf(a, name, v, ctx))
		}
		return e.mk(OpPhi, "", v, alts...)
	case OpIte:
		return e.mk(OpIte, "", v, x.Args[0], e.fieldOf(x.Args[1], name, v, ctx), e.fieldOf(x.Args[2], name, v, ctx))
	case OpNew, OpAddr:
		// pointer to an object whose writes are tracked: load the field place
		pl := e.mk(OpField, name, v, x)
		return e.load(pl, ctx, v)
	}
	if x.IsConst("nil") || x.IsConst("zero") {
		return &Term{Op: OpConst, Name: "zero", Val: v}
	}
	return e.mk(OpField, name, v, x)
}

// ---- recognised helper shapes ------------------------------------------------

// getterField recognises the generated nil-safe getter shape
//
//	func (x *T) GetF() R { if x != nil { return x.F }; return zero }
//
// and returns "F".
func (e *Engine) getterField(fn *ssa.Function) string {
	if s, ok := e.getters[fn]; ok {
		return s
	}
	e.getters[fn] = ""
	if fn.Signature.Recv() == nil || len(fn.Params) != 1 || !strings.HasPrefix(fn.Name(), "Get") || len(fn.Blocks) != 3 {
		return ""
	}
	if fn.Pkg == nil || !strings.Contains(fn.Pkg.Pkg.Path(), "/proto/") {
		return ""
	}
	b0 := fn.Blocks[0]
	iff, ok := b0.Instrs[len(b0.Instrs)-1].(*ssa.If)
	if !ok || len(b0.Instrs) != 2 {
		return ""
	}
	cond, ok := iff.Cond.(*ssa.BinOp)
	if !ok || cond.Op != token.NEQ || cond.X != fn.Params[0] {
		return ""
	}
	if c, ok := cond.Y.(*ssa.Const); !ok || !c.IsNil() {
		return ""
	}
	then := b0.Succs[0]
	els := b0.Succs[1]
	// then: t = &x.F; v = *t; return v
	if len(then.Instrs) != 3 {
		return ""
	}
	fa, ok := then.Instrs[0].(*ssa.FieldAddr)
	if !ok || fa.X != fn.Params[0] {
		return ""
	}
	ld, ok := then.Instrs[1].(*ssa.UnOp)
	if !ok || ld.Op != token.MUL || ld.X != fa {
		return ""
	}
	ret, ok := then.Instrs[2].(*ssa.Return)
	if !ok || len(ret.Results) != 1 || ret.Results[0] != ld {
		return ""
	}
	// else: return zero constant
	if len(els.Instrs) != 1 {
		return ""
	}
	ret2, ok := els.Instrs[0].(*ssa.Return)
	if !ok || len(ret2.Results) != 1 {
		return ""
	}
	if c, ok := ret2.Results[0].(*ssa.Const); !ok || !(c.Value == nil || isZeroConst(c)) {
		return ""
	}
	name := fieldName(fn.Params[0].Type(), fa.Field)
	if "Get"+name != fn.Name() {
		return ""
	}
	e.getters[fn] = name
	return name
}

func isZeroConst(c *ssa.Const) bool {
	if c.Value == nil {
		return true
	}
	switch c.Value.Kind() {
	case constant.Int:
		return constant.Sign(c.Value) == 0
	case constant.String:
		return constant.StringVal(c.Value) == ""
	case constant.Bool:
		return !constant.BoolVal(c.Value)
	}
	return false
}

// IsGetter reports whether fn is a recognised nil-safe getter.
func (e *Engine) IsGetter(fn *ssa.Function) bool { return e.getterField(fn) != "" }

// isClone recognises  func f(b []T) []T { r := make([]T, len(b)); copy(r, b); return r }.
func (e *Engine) isClone(fn *ssa.Function) bool {
	if s, ok := e.clones[fn]; ok {
		return s > 0
	}
	e.clones[fn] = -1
	if len(fn.Params) != 1 || len(fn.Blocks) != 1 || fn.Signature.Results().Len() != 1 {
		return false
	}
	if _, ok := fn.Params[0].Type().Underlying().(*types.Slice); !ok {
		return false
	}
	p := fn.Params[0]
	// a straight-line body that returns a fresh buffer holding exactly the
	// parameter's elements, in one of the usual spellings:
	//   d := make([]T, len(p)); copy(d, p); return d
	//   return append(make([]T, 0, len(p)), p...)      (also []T(nil) / []T{} as the base)
	//   return slices.Clone(p) / bytes.Clone(p)
	var mk *ssa.MakeSlice
	var cp, app *ssa.Call
	var ret *ssa.Return
	for _, in := range fn.Blocks[0].Instrs {
		switch x := in.(type) {
		case *ssa.DebugRef:
		case *ssa.MakeSlice:
			if mk != nil {
				return false
			}
			mk = x
		case *ssa.Call:
			switch {
			case isBuiltin(x, "len"), isBuiltin(x, "cap"):
				if x.Call.Args[0] != ssa.Value(p) {
					return false
				}
			case isBuiltin(x, "copy"):
				if cp != nil {
					return false
				}
				cp = x
			case isBuiltin(x, "append"):
				if app != nil {
					return false
				}
				app = x
			default:
				if cal := x.Call.StaticCallee(); cal != nil && (cal.String() == "bytes.Clone" || strings.HasPrefix(cal.String(), "slices.Clone")) && len(x.Call.Args) == 1 && x.Call.Args[0] == ssa.Value(p) {
					app = x
					continue
				}
				return false
			}
		case *ssa.Return:
			ret = x
		case *ssa.Slice, *ssa.Alloc, *ssa.Convert, *ssa.ChangeType:
			// building an empty base slice / array literal for append
		default:
			return false
		}
	}
	if ret == nil || len(ret.Results) != 1 {
		return false
	}
	lenOfP := func(v ssa.Value) bool {
		c, ok := v.(*ssa.Call)
		return ok && isBuiltin(c, "len") && c.Call.Args[0] == ssa.Value(p)
	}
	switch {
	case mk != nil && cp != nil && app == nil:
		if !lenOfP(mk.Len) || cp.Call.Args[0] != ssa.Value(mk) || cp.Call.Args[1] != ssa.Value(p) || ret.Results[0] != ssa.Value(mk) {
			return false
		}
	case app != nil && cp == nil:
		if ret.Results[0] != ssa.Value(app) {
			return false
		}
		if isBuiltin(app, "append") {
			if len(app.Call.Args) != 2 || app.Call.Args[1] != ssa.Value(p) {
				return false
			}
			base := app.Call.Args[0]
			switch b := base.(type) {
			case *ssa.MakeSlice:
				if c, ok := b.Len.(*ssa.Const); !ok || !isZeroConst(c) {
					return false
				}
			case *ssa.Const:
				if !b.IsNil() {
					return false
				}
			default:
				return false
			}
		}
	default:
		return false
	}
	e.clones[fn] = 1
	return true
}

// IsClone exposes isClone.
func (e *Engine) IsClone(fn *ssa.Function) bool { return e.isClone(fn) }

func isBuiltin(c *ssa.Call, name string) bool {
	b, ok := c.Call.Value.(*ssa.Builtin)
	return ok && b.Name() == name
}

// elemOp recognises a function f(a, b []T) []T that returns a fresh slice d
// with d[i] = a[i] OP b[i] for every index of one counted loop (index loop or
// range loop over either operand, any local naming), and returns OP. Nothing
// else is stored and nothing but len is called.
func (e *Engine) elemOp(fn *ssa.Function) string {
	if s, ok := e.elemops[fn]; ok {
		return s
	}
	e.elemops[fn] = ""
	if len(fn.Params) != 2 || fn.Signature.Results().Len() != 1 || len(fn.Blocks) == 0 {
		return ""
	}
	for _, p := range fn.Params {
		if _, ok := p.Type().Underlying().(*types.Slice); !ok {
			return ""
		}
	}
	if op := e.elemOpAppend(fn); op != "" {
		e.elemops[fn] = op
		return op
	}
	a, b := fn.Params[0], fn.Params[1]
	var mk *ssa.MakeSlice
	var store *ssa.Store
	nRet, headers := 0, 0
	for _, blk := range fn.Blocks {
		for _, p := range blk.Preds {
			if blk.Dominates(p) {
				headers++
				break
			}
		}
		for _, in := range blk.Instrs {
			switch x := in.(type) {
			case *ssa.MakeSlice:
				if mk != nil {
					return ""
				}
				mk = x
			case *ssa.Return:
				nRet++
				if len(x.Results) != 1 {
					return ""
				}
				if x.Results[0] != ssa.Value(mk) || mk == nil {
					return ""
				}
			case *ssa.Store:
				if store != nil {
					return ""
				}
				store = x
			case *ssa.Call:
				if !isBuiltin(x, "len") {
					return ""
				}
			case *ssa.Go, *ssa.Defer, *ssa.MapUpdate, *ssa.Send, *ssa.Panic:
				return ""
			}
		}
	}
	if mk == nil || store == nil || nRet != 1 || headers != 1 {
		return ""
	}
	if c, ok := mk.Len.(*ssa.Const); ok && c.Value != nil && c.Int64() == 0 {
		return ""
	}
	if l, ok := mk.Len.(*ssa.Call); !ok || !isBuiltin(l, "len") || (l.Call.Args[0] != ssa.Value(a) && l.Call.Args[0] != ssa.Value(b)) {
		return ""
	}
	ia, ok := store.Addr.(*ssa.IndexAddr)
	if !ok || ia.X != ssa.Value(mk) {
		return ""
	}
	ctx := &Ctx{Fn: fn} // parameters stay symbolic
	idx := StripConv(e.Eval(ia.Index, ctx))
	if idx.Op != OpIter || len(idx.Args) != 2 || !idx.Args[0].IsConst("0") || !idx.Args[1].IsConst("1") {
		return ""
	}
	val := StripConv(e.Eval(store.Val, ctx))
	if val.Op != OpBin || len(val.Args) != 2 {
		return ""
	}
	pa := StripConv(e.Eval(a, ctx))
	pb := StripConv(e.Eval(b, ctx))
	elemOf := func(t, of *Term) bool {
		t = StripConv(t)
		return t.Op == OpIndex && Eq(StripConv(t.Args[0]), of) && Eq(StripConv(t.Args[1]), idx)
	}
	x, y := val.Args[0], val.Args[1]
	inOrder := elemOf(x, pa) && elemOf(y, pb)
	swapped := elemOf(x, pb) && elemOf(y, pa)
	if !(inOrder || (swapped && commutative[val.Name])) {
		return ""
	}
	// the loop runs over every index of an operand (or of the result)
	hdr := store.Block()
	for hdr != nil && !isHeaderBlock(hdr) {
		hdr = hdr.Idom()
	}
	if hdr == nil {
		return ""
	}
	iff, ok := hdr.Instrs[len(hdr.Instrs)-1].(*ssa.If)
	if !ok {
		return ""
	}
	cond := StripConv(e.Eval(iff.Cond, ctx))
	if cond.Op != OpBin || cond.Name != "<" || !Eq(StripConv(cond.Args[0]), idx) {
		return ""
	}
	bound := StripConv(cond.Args[1])
	if bound.Op != OpLen || !(Eq(StripConv(bound.Args[0]), pa) || Eq(StripConv(bound.Args[0]), pb)) {
		// len(d) with d = make(len(a)) normalises to len(a)
		return ""
	}
	e.elemops[fn] = val.Name
	return e.elemops[fn]
}

// elemOpAppend recognises the appending form of an element-wise helper:
//
//	out := make([]T, 0, n); for i := range a { out = append(out, a[i] op b[i]) }; return out
//
// one loop whose single body block appends exactly one element per iteration,
// the index running from 0 over every index of an operand.
func (e *Engine) elemOpAppend(fn *ssa.Function) string {
	a, b := fn.Params[0], fn.Params[1]
	var mk *ssa.MakeSlice
	var app *ssa.Call
	var store *ssa.Store
	var ret *ssa.Return
	var hdr *ssa.BasicBlock
	headers := 0
	for _, blk := range fn.Blocks {
		if isHeaderBlock(blk) {
			headers++
			hdr = blk
		}
		for _, in := range blk.Instrs {
			switch x := in.(type) {
			case *ssa.MakeSlice:
				if mk != nil {
					return ""
				}
				mk = x
			case *ssa.Return:
				if ret != nil || len(x.Results) != 1 {
					return ""
				}
				ret = x
			case *ssa.Store:
				if store != nil {
					return ""
				}
				store = x
			case *ssa.Call:
				switch {
				case isBuiltin(x, "len"):
				case isBuiltin(x, "append"):
					if app != nil {
						return ""
					}
					app = x
				default:
					return ""
				}
			case *ssa.Go, *ssa.Defer, *ssa.MapUpdate, *ssa.Send, *ssa.Panic:
				return ""
			}
		}
	}
	if mk == nil || app == nil || store == nil || ret == nil || headers != 1 || len(app.Call.Args) != 2 {
		return ""
	}
	if c, ok := mk.Len.(*ssa.Const); !ok || c.Value == nil || c.Int64() != 0 {
		return ""
	}
	acc, ok := app.Call.Args[0].(*ssa.Phi)
	if !ok || acc.Block() != hdr || ret.Results[0] != ssa.Value(acc) || len(acc.Edges) != 2 {
		return ""
	}
	if !((acc.Edges[0] == ssa.Value(mk) && acc.Edges[1] == ssa.Value(app)) || (acc.Edges[1] == ssa.Value(mk) && acc.Edges[0] == ssa.Value(app))) {
		return ""
	}
	// the body is one block executed on every iteration
	body := app.Block()
	if len(body.Succs) != 1 || body.Succs[0] != hdr || len(hdr.Succs) != 2 || hdr.Succs[0] != body || store.Block() != body {
		return ""
	}
	sl, ok := app.Call.Args[1].(*ssa.Slice)
	if !ok {
		return ""
	}
	arr, ok := sl.X.(*ssa.Alloc)
	if !ok {
		return ""
	}
	if at, ok := arr.Type().Underlying().(*types.Pointer); !ok {
		return ""
	} else if ar, ok := at.Elem().Underlying().(*types.Array); !ok || ar.Len() != 1 {
		return ""
	}
	ia, ok := store.Addr.(*ssa.IndexAddr)
	if !ok || ia.X != ssa.Value(arr) {
		return ""
	}
	ctx := &Ctx{Fn: fn} // parameters stay symbolic
	val := StripConv(e.Eval(store.Val, ctx))
	if val.Op != OpBin || len(val.Args) != 2 {
		return ""
	}
	pa := StripConv(e.Eval(a, ctx))
	pb := StripConv(e.Eval(b, ctx))
	var idx *Term
	elemOf := func(t, of *Term) bool {
		t = StripConv(t)
		if t.Op != OpIndex || !Eq(StripConv(t.Args[0]), of) {
			return false
		}
		i := StripConv(t.Args[1])
		if i.Op != OpIter || len(i.Args) != 2 || !i.Args[0].IsConst("0") || !i.Args[1].IsConst("1") {
			return false
		}
		if idx == nil {
			idx = i
		}
		return Eq(i, idx)
	}
	x, y := val.Args[0], val.Args[1]
	inOrder := elemOf(x, pa) && elemOf(y, pb)
	if !inOrder {
		idx = nil
		if !(elemOf(x, pb) && elemOf(y, pa) && commutative[val.Name]) {
			return ""
		}
	}
	iff, ok := hdr.Instrs[len(hdr.Instrs)-1].(*ssa.If)
	if !ok {
		return ""
	}
	cond := StripConv(e.Eval(iff.Cond, ctx))
	if cond.Op != OpBin || cond.Name != "<" || !Eq(StripConv(cond.Args[0]), idx) {
		return ""
	}
	bound := StripConv(cond.Args[1])
	if bound.Op != OpLen || !(Eq(StripConv(bound.Args[0]), pa) || Eq(StripConv(bound.Args[0]), pb)) {
		return ""
	}
	return val.Name
}

func isHeaderBlock(b *ssa.BasicBlock) bool {
	for _, p := range b.Preds {
		if b.Dominates(p) {
			return true
		}
	}
	return false
}

// ElemOp exposes elemOp.
func (e *Engine) ElemOp(fn *ssa.Function) string { return e.elemOp(fn) }

// NoReturn reports whether fn can never return normally (every path ends in
// os.Exit, panic, log.Fatal or another no-return function).
func (e *Engine) NoReturn(fn *ssa.Function) bool {
	if fn == nil {
		return false
	}
	if s, ok := e.noret[fn]; ok {
		return s > 0
	}
	full := fn.String()
	switch full {
	case "os.Exit", "log.Fatal", "log.Fatalf", "log.Fatalln", "runtime.Goexit",
		"github.com/google/logger.Fatal", "github.com/google/logger.Fatalf", "github.com/google/logger.Fatalln":
		e.noret[fn] = 1
		return true
	}
	if fn.Blocks == nil || !e.P.InRepo(fn) {
		e.noret[fn] = -1
		return false
	}
	e.noret[fn] = -1 // break recursion
	g := newGraph(fn, nil, e.NoReturn)
	for _, b := range fn.Blocks {
		if !g.Reach[b.Index] || g.CutAt[b.Index] >= 0 {
			continue
		}
		if _, ok := b.Instrs[len(b.Instrs)-1].(*ssa.Return); ok {
			return false
		}
	}
	e.noret[fn] = 1
	return true
}

func sortedKeys[M ~map[string]V, V any](m M) []string {
	ks := make([]string, 0, len(m))
	for k := range m {
		ks = append(ks, k)
	}
	sort.Strings(ks)
	return ks
}
