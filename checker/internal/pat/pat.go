// Package pat provides pattern combinators over provenance terms.
package pat

import (
	"fmt"
	"strings"

	"tdxlint/internal/flow"
)

// Bind carries named sub-terms captured during a match.
type Bind map[string]*flow.Term

// M is a matcher.
type M func(t *flow.Term, b Bind) bool

// Any matches everything.
func Any() M { return func(*flow.Term, Bind) bool { return true } }

// Cap captures the matched term under name (must agree with earlier captures).
func Cap(name string, m M) M {
	return func(t *flow.Term, b Bind) bool {
		if !m(t, b) {
			return false
		}
		if prev, ok := b[name]; ok {
			return flow.Eq(prev, t)
		}
		b[name] = t
		return true
	}
}

// Is matches a term structurally equal to want.
func Is(want *flow.Term) M {
	return func(t *flow.Term, _ Bind) bool { return flow.Eq(flow.StripConv(t), want) || flow.Eq(t, want) }
}

// Const matches the constant with the given literal (conversions ignored).
func Const(lit string) M {
	return func(t *flow.Term, _ Bind) bool { return flow.StripConv(t).IsConst(lit) }
}

// Conv makes m ignore value-preserving conversions around the term.
func Conv(m M) M {
	return func(t *flow.Term, b Bind) bool { return m(flow.StripConv(t), b) }
}

func nameMatches(have, want string) bool {
	if have == want {
		return true
	}
	if i := strings.Index(have, "#"); i >= 0 && have[:i] == want {
		return true
	}
	return false
}

// Op matches a term by operator, name and argument matchers.
func Op(op, name string, args ...M) M {
	return func(t *flow.Term, b Bind) bool {
		t = flow.StripConv(t)
		if t.Op != op || !nameMatches(t.Name, name) || len(t.Args) != len(args) {
			return false
		}
		for i, a := range args {
			if !a(t.Args[i], b) {
				return false
			}
		}
		return true
	}
}

// Global matches the value of a package-level variable.
func Global(name string) M {
	return func(t *flow.Term, _ Bind) bool {
		t = flow.StripConv(t)
		return t.Op == flow.OpGlobal && t.Name == name
	}
}

// Call matches a static library call.
func Call(name string, args ...M) M { return Op(flow.OpCall, name, args...) }

// CallN matches a call by name only.
func CallN(name string) M {
	return func(t *flow.Term, _ Bind) bool {
		t = flow.StripConv(t)
		return (t.Op == flow.OpCall || t.Op == flow.OpInvoke) && nameMatches(t.Name, name)
	}
}

// Invoke matches an interface method call (site ignored).
func Invoke(method string, args ...M) M { return Op(flow.OpInvoke, method, args...) }

// Res matches result idx of a call.
func Res(idx string, call M) M { return Op(flow.OpRes, idx, call) }

// Field matches x.f1.f2...
func Field(x M, names ...string) M {
	return func(t *flow.Term, b Bind) bool {
		t = flow.StripConv(t)
		for i := len(names) - 1; i >= 0; i-- {
			if t.Op != flow.OpField || t.Name != names[i] {
				return false
			}
			t = t.Args[0]
		}
		return x(t, b)
	}
}

// Slice matches x[lo:hi] with constant bounds given as literals ("" = absent).
func Slice(x M, lo, hi string) M {
	return func(t *flow.Term, b Bind) bool {
		t = flow.StripConv(t)
		if t.Op != flow.OpSlice {
			return false
		}
		okLo := t.Args[1].IsConst(lo) || (lo == "0" && t.Args[1].IsConst(""))
		okHi := t.Args[2].IsConst(hi)
		return okLo && okHi && x(t.Args[0], b)
	}
}

// Bin matches a binary operation; comparison operators are matched modulo
// operand order (a < b  ==  b > a) and commutative ones in either order.
func Bin(op string, x, y M) M {
	flip := map[string]string{"<": ">", ">": "<", "<=": ">=", ">=": "<=", "==": "==", "!=": "!=", "+": "+", "&": "&", "|": "|", "*": "*", "^": "^"}
	return func(t *flow.Term, b Bind) bool {
		t = flow.StripConv(t)
		if t.Op != flow.OpBin {
			return false
		}
		try := func(x, y M) bool {
			nb := Bind{}
			for k, v := range b {
				nb[k] = v
			}
			if x(t.Args[0], nb) && y(t.Args[1], nb) {
				for k, v := range nb {
					b[k] = v
				}
				return true
			}
			return false
		}
		if t.Name == op && try(x, y) {
			return true
		}
		if f, ok := flip[op]; ok && t.Name == f && try(y, x) {
			return true
		}
		return false
	}
}

// Not matches the negation of m's subject.
func Not(m M) M {
	return func(t *flow.Term, b Bind) bool {
		if t.Op == flow.OpUn && t.Name == "!" {
			return m(t.Args[0], b)
		}
		return false
	}
}

// Concat matches an append chain with exactly these parts.
func Concat(parts ...M) M { return Op(flow.OpConcat, "", parts...) }

// Len matches len(x).
func Len(x M) M { return Op(flow.OpLen, "", x) }

// OneOf matches if any alternative matches.
func OneOf(ms ...M) M {
	return func(t *flow.Term, b Bind) bool {
		for _, m := range ms {
			nb := Bind{}
			for k, v := range b {
				nb[k] = v
			}
			if m(t, nb) {
				for k, v := range nb {
					b[k] = v
				}
				return true
			}
		}
		return false
	}
}

// Pred lifts a predicate.
func Pred(f func(*flow.Term) bool) M { return func(t *flow.Term, _ Bind) bool { return f(t) } }

// Contains matches a term that has a sub-term matching m.
func Contains(m M) M {
	return func(t *flow.Term, b Bind) bool {
		return t.Contains(func(x *flow.Term) bool { return m(x, b) })
	}
}

// StructField matches a struct term (or finit list) whose field f matches m.
func StructField(f string, m M) M {
	return func(t *flow.Term, b Bind) bool {
		t = flow.StripConv(t)
		if t.Op != flow.OpStruct {
			return false
		}
		for _, fi := range t.Args {
			if fi.Name == f {
				return m(fi.Args[0], b)
			}
		}
		return false
	}
}

// All requires every matcher to match the same term.
func All(ms ...M) M {
	return func(t *flow.Term, b Bind) bool {
		for _, m := range ms {
			if !m(t, b) {
				return false
			}
		}
		return true
	}
}

// IntLe matches x <= c on an integer, also written x < c+1 (either operand order).
func IntLe(x M, c int64) M {
	return OneOf(Bin("<=", x, Const(fmt.Sprint(c))), Bin("<", x, Const(fmt.Sprint(c+1))))
}

// IntGe matches x >= c on an integer, also written x > c-1 (either operand order).
func IntGe(x M, c int64) M {
	return OneOf(Bin("<=", Const(fmt.Sprint(c)), x), Bin("<", Const(fmt.Sprint(c-1)), x))
}

// NonEmpty matches len(x) != 0 in any of its integer spellings (0 < len, 1 <= len).
func NonEmpty(x M) M {
	return OneOf(Bin("!=", Len(x), Const("0")), Bin("<", Const("0"), Len(x)), Bin("<=", Const("1"), Len(x)))
}

// Empty matches len(x) == 0 in any of its integer spellings (len <= 0, len < 1).
func Empty(x M) M {
	return OneOf(Bin("==", Len(x), Const("0")), Bin("<=", Len(x), Const("0")), Bin("<", Len(x), Const("1")))
}

// NonZero matches x != 0 on an unsigned / non-negative integer, also written 0 < x or 1 <= x.
func NonZero(x M) M {
	return OneOf(Bin("!=", x, Const("0")), Bin("<", Const("0"), x), Bin("<=", Const("1"), x))
}
