package props

import (
	"fmt"
	"os"
	"path/filepath"
	"regexp"
	"sort"
	"strconv"
	"strings"

	"golang.org/x/tools/go/ssa"

	"tdxlint/internal/flow"
	"tdxlint/internal/load"
	"tdxlint/internal/pat"
)

// seg is one field of a fixed wire layout.
type seg struct {
	lo, hi int64
	field  string // Go field name of the proto message
	kind   string // "bytes", "u16", "u32", "u64"
	elem   int    // element index for repeated fields, else -1
	where  string
}

func (s seg) key() string {
	if s.elem >= 0 {
		return fmt.Sprintf("%s[%d]", s.field, s.elem)
	}
	return s.field
}

func (s seg) String() string {
	return fmt.Sprintf("%s:[%d,%d):%s", s.key(), s.lo, s.hi, s.kind)
}

// affine evaluates an integer term at loop iteration k.
func affine(t *flow.Term, k int64) (int64, bool) {
	t = flow.StripConv(t)
	switch t.Op {
	case flow.OpConst:
		return flow.ConstInt(t)
	case flow.OpIter:
		init, ok1 := affine(t.Args[0], k)
		step, ok2 := affine(t.Args[1], k)
		return init + step*k, ok1 && ok2
	case flow.OpBin:
		a, ok1 := affine(t.Args[0], k)
		b, ok2 := affine(t.Args[1], k)
		if !ok1 || !ok2 {
			return 0, false
		}
		switch t.Name {
		case "+":
			return a + b, true
		case "-":
			return a - b, true
		case "*":
			return a * b, true
		}
	}
	return 0, false
}

func hasIter(t *flow.Term) (string, bool) {
	id := ""
	t.Walk(func(x *flow.Term) bool {
		if x.Op == flow.OpIter && id == "" {
			id = x.Name
			if i := strings.Index(id, "/"); i >= 0 {
				id = id[:i]
			}
		}
		return true
	})
	return id, id != ""
}

// tripCount returns the constant trip count of loop id in fn (header test iter(0,1) < C).
func tripCount(e *flow.Engine, fn *ssa.Function, id string) (int64, bool) {
	g := e.GraphOf(fn, e.Root(fn))
	for _, l := range g.Loops {
		if l.ID != id {
			continue
		}
		head := fn.Blocks[l.Head]
		iff, ok := head.Instrs[len(head.Instrs)-1].(*ssa.If)
		if !ok {
			return 0, false
		}
		c := e.Eval(iff.Cond, e.Root(fn))
		c = flow.StripConv(c)
		if c.Op == flow.OpBin && c.Name == "<" {
			// a counted loop with constant start, step and bound: for off := K0; off < K1; off += S
			if it := flow.StripConv(c.Args[0]); it.Op == flow.OpIter {
				k0, ok0 := flow.ConstInt(it.Args[0])
				st, ok1 := flow.ConstInt(it.Args[1])
				k1, ok2 := flow.ConstInt(c.Args[1])
				if ok0 && ok1 && ok2 && st > 0 && !(k0 == 0 && st == 1) {
					if k1 <= k0 {
						return 0, true
					}
					return (k1 - k0 + st - 1) / st, true
				}
			}
			it := flow.StripConv(c.Args[0])
			if it.Op == flow.OpIter && it.Args[0].IsConst("0") && it.Args[1].IsConst("1") {
				if n, ok := flow.ConstInt(c.Args[1]); ok {
					return n, true
				}
				// `for i := range x` behind a dominating check len(x) == K (the validity
				// predicate fixes the number of elements): K iterations
				bound := flow.StripConv(c.Args[1])
				alts := e.GatesAt(fn, e.Root(fn), l.Head)
				var k int64 = -1
				for _, a := range alts {
					found := int64(-1)
					for _, g := range a.Gates {
						if g.Pred == nil || g.Loop != "" {
							continue
						}
						p := flow.StripConv(g.Pred)
						if p.Op != flow.OpBin || p.Name != "==" || len(p.Args) != 2 {
							continue
						}
						for i := 0; i < 2; i++ {
							if n, ok := flow.ConstInt(p.Args[i]); ok && flow.Eq(flow.StripConv(p.Args[1-i]), bound) {
								found = n
							}
						}
					}
					if found < 0 || (k >= 0 && k != found) {
						return 0, false
					}
					k = found
				}
				if k >= 0 && len(alts) > 0 {
					return k, true
				}
				return 0, false
			}
		}
	}
	return 0, false
}

// fieldOfMsg decodes a source term  msg.F  or  msg.F[i].
func fieldOfMsg(t, msg *flow.Term, k int64) (string, int, bool) {
	t = flow.StripConv(t)
	if t.Op == flow.OpIndex {
		i, ok := affine(t.Args[1], k)
		x := flow.StripConv(t.Args[0])
		if ok && x.Op == flow.OpField && flow.Eq(flow.StripConv(x.Args[0]), msg) {
			return x.Name, int(i), true
		}
		return "", 0, false
	}
	if t.Op == flow.OpField && flow.Eq(flow.StripConv(t.Args[0]), msg) {
		return t.Name, -1, true
	}
	return "", 0, false
}

// serialiserLayout extracts  out[lo:hi] <- field  for a fixed-size serialiser.
func (env *Env) serialiserLayout(e *flow.Engine, fn *ssa.Function) (segs []seg, size int64, problems []string) {
	msg := param(fn, 0)
	// the returned buffer
	var buf *flow.Term
	for _, a := range e.EntryPaths(fn, flow.ModeErr) {
		res := flow.StripConv(a.Results[0])
		if res.Op == flow.OpSlice {
			res = flow.StripConv(res.Args[0])
		}
		if buf == nil {
			buf = res
		} else if !flow.Eq(buf, res) {
			problems = append(problems, "success returns yield different buffers")
		}
	}
	if buf == nil {
		return nil, 0, []string{"no success return"}
	}
	if buf.Typ != nil {
		if n, ok := arrayLenOf(buf); ok {
			size = n
		}
	}
	if size == 0 && buf.Op == flow.OpMake {
		if n, ok := flow.ConstInt(buf.Args[0]); ok {
			size = n
		}
	}
	if size == 0 {
		problems = append(problems, "output buffer is not a fresh fixed-size buffer: "+truncate(buf.String(), 120))
		return
	}
	segs, wprobs := env.bufferWrites(e, fn, buf, size, msg)
	problems = append(problems, wprobs...)
	sort.Slice(segs, func(i, j int) bool { return segs[i].lo < segs[j].lo })
	return
}

// bufferWrites lists the writes (copy / PutUintN) of fn into the fresh buffer
// buf (size < 0: length not constant; an open-ended destination has hi = -1).
func (env *Env) bufferWrites(e *flow.Engine, fn *ssa.Function, buf *flow.Term, size int64, msg *flow.Term) (segs []seg, problems []string) {
	isBuf := func(t *flow.Term) bool {
		t = flow.StripConv(t)
		for t.Op == flow.OpSlice && (t.Args[1].IsConst("") || t.Args[1].IsConst("0")) && (t.Args[2].IsConst("") || (size >= 0 && t.Args[2].IsConst(fmt.Sprint(size)))) && !flow.Eq(t, buf) {
			t = flow.StripConv(t.Args[0])
		}
		return flow.Eq(t, buf)
	}
	var addWrite func(dst, src *flow.Term, kind string, width int64, pos string)
	addWrite = func(dst, src *flow.Term, kind string, width int64, pos string) {
		// a write driven by a literal table of fields (`for _, f := range table {
		// copy(buf[f.start:f.end], f.value) }`): one write per row
		if it, rows := tableIter(dst, src); it != nil {
			its := it.String()
			for k := 0; k < rows; k++ {
				kc := flow.C(fmt.Sprint(k))
				sub := func(x *flow.Term) *flow.Term {
					if x.Op == flow.OpIter && x.String() == its {
						return kc
					}
					return nil
				}
				addWrite(flow.Subst(dst, sub), flow.Subst(src, sub), kind, width, pos)
			}
			return
		}
		d := flow.StripConv(dst)
		if isBuf(d) {
			// whole-buffer destination: [0, end)
			d = &flow.Term{Op: flow.OpSlice, Args: []*flow.Term{buf, flow.C("0"), flow.C("")}}
		}
		if d.Op != flow.OpSlice || !isBuf(d.Args[0]) {
			return
		}
		n := int64(1)
		loop, inLoop := hasIter(d)
		if inLoop {
			tc, ok := tripCount(e, fn, loop)
			if !ok {
				problems = append(problems, pos+": write in a loop without a constant trip count")
				return
			}
			n = tc
		}
		for k := int64(0); k < n; k++ {
			lo, ok1 := affine(d.Args[1], k)
			if d.Args[1].IsConst("") {
				lo, ok1 = 0, true
			}
			hi, ok2 := affine(d.Args[2], k)
			if d.Args[2].IsConst("") {
				hi, ok2 = -1, true
				if size >= 0 {
					hi = size
				}
			}
			if !ok1 || !ok2 {
				problems = append(problems, pos+": non-constant bounds "+truncate(d.String(), 120))
				return
			}
			f, el, ok := fieldOfMsg(src, msg, k)
			if !ok {
				problems = append(problems, fmt.Sprintf("%s: bytes [%d,%d) are written from %s, not from a field of the message", pos, lo, hi, truncate(src.String(), 100)))
				continue
			}
			if width > 0 && hi-lo != width {
				problems = append(problems, fmt.Sprintf("%s: %s written with width %d into [%d,%d)", pos, f, width, lo, hi))
			}
			segs = append(segs, seg{lo, hi, f, kind, el, pos})
		}
	}
	// every write on the inlined call tree below fn (helpers such as a
	// table-driven putFields are seen through), evaluated on its call string
	e.Walk(fn, false, func(in ssa.Instruction, fr flow.Frame) {
		c, ok := in.(*ssa.Call)
		if !ok {
			return
		}
		pos := env.P.Pos(c.Pos())
		if bi, ok := c.Call.Value.(*ssa.Builtin); ok && bi.Name() == "copy" {
			addWrite(e.Eval(c.Call.Args[0], fr.Ctx), e.Eval(c.Call.Args[1], fr.Ctx), "bytes", 0, pos)
			return
		}
		if cal := c.Call.StaticCallee(); cal != nil {
			switch cal.String() {
			case "(encoding/binary.littleEndian).PutUint16":
				addWrite(e.Eval(c.Call.Args[1], fr.Ctx), e.Eval(c.Call.Args[2], fr.Ctx), "u16", 2, pos)
			case "(encoding/binary.littleEndian).PutUint32":
				addWrite(e.Eval(c.Call.Args[1], fr.Ctx), e.Eval(c.Call.Args[2], fr.Ctx), "u32", 4, pos)
			case "(encoding/binary.littleEndian).PutUint64":
				addWrite(e.Eval(c.Call.Args[1], fr.Ctx), e.Eval(c.Call.Args[2], fr.Ctx), "u64", 8, pos)
			case "(encoding/binary.bigEndian).PutUint16", "(encoding/binary.bigEndian).PutUint32", "(encoding/binary.bigEndian).PutUint64":
				if strings.Contains(e.Eval(c.Call.Args[1], fr.Ctx).String(), buf.String()) {
					problems = append(problems, pos+": big-endian write in a little-endian layout")
				}
			}
		}
	})
	sort.Slice(segs, func(i, j int) bool { return segs[i].lo < segs[j].lo })
	return
}

func arrayLenOf(t *flow.Term) (int64, bool) {
	if t.Op == flow.OpDeref && len(t.Args) == 1 {
		s := t.Args[0].Name
		if m := regexp.MustCompile(`^\[(\d+)\]`).FindStringSubmatch(s); m != nil {
			n, _ := strconv.ParseInt(m[1], 10, 64)
			return n, true
		}
	}
	return 0, false
}

// parserLayout extracts  field <- in[lo:hi]  for a fixed-size parser helper.
func (env *Env) parserLayout(e *flow.Engine, fn *ssa.Function) (segs []seg, problems []string) {
	in := flow.T(flow.OpCopyOf, "", param(fn, 0))
	alts := e.EntryPaths(fn, flow.ModeErr)
	if len(alts) == 0 {
		return nil, []string{"no success return"}
	}
	o := e.Object(alts[0].Results[0], alts[0].Ctx)
	if o.Op != flow.OpStruct {
		return nil, []string{"parser does not return a freshly built message"}
	}
	sliceOf := func(t *flow.Term, k int64) (int64, int64, bool) {
		t = flow.StripConv(t)
		if t.Op != flow.OpSlice || !flow.Eq(flow.StripConv(t.Args[0]), in) {
			return 0, 0, false
		}
		lo, ok1 := affine(t.Args[1], k)
		if t.Args[1].IsConst("") {
			lo, ok1 = 0, true
		}
		hi, ok2 := affine(t.Args[2], k)
		return lo, hi, ok1 && ok2
	}
	for _, fi := range o.Args {
		if fi.Name == "state" || fi.Name == "sizeCache" || fi.Name == "unknownFields" {
			continue
		}
		v := flow.StripConv(fi.Args[0])
		pos := env.P.Pos(fn.Pos())
		// integers
		if v.Op == flow.OpCall && strings.HasPrefix(v.Name, "(encoding/binary.littleEndian).Uint") && len(v.Args) == 2 {
			w := map[string]int64{"16": 2, "32": 4, "64": 8}[strings.TrimPrefix(v.Name, "(encoding/binary.littleEndian).Uint")]
			lo, hi, ok := sliceOf(v.Args[1], 0)
			if !ok || hi-lo != w {
				problems = append(problems, fmt.Sprintf("%s decoded from %s", fi.Name, truncate(v.String(), 120)))
				continue
			}
			segs = append(segs, seg{lo, hi, fi.Name, fmt.Sprintf("u%d", w*8), -1, pos})
			continue
		}
		if v.Op == flow.OpCall && strings.HasPrefix(v.Name, "(encoding/binary.bigEndian)") {
			problems = append(problems, fi.Name+" decoded big-endian")
			continue
		}
		if lo, hi, ok := sliceOf(v, 0); ok {
			segs = append(segs, seg{lo, hi, fi.Name, "bytes", -1, pos})
			continue
		}
		// repeated field filled by append in a constant-trip loop
		if loop, ok := hasIter(v); ok {
			tc, ok := tripCount(e, fn, loop)
			var el *flow.Term
			v.Walk(func(x *flow.Term) bool {
				if x.Op == flow.OpSlice && flow.Eq(flow.StripConv(x.Args[0]), in) && el == nil {
					el = x
				}
				return true
			})
			if ok && el != nil {
				for k := int64(0); k < tc; k++ {
					lo, hi, ok := sliceOf(el, k)
					if !ok {
						problems = append(problems, fi.Name+": non-affine element bounds")
						break
					}
					segs = append(segs, seg{lo, hi, fi.Name, "bytes", int(k), pos})
				}
				continue
			}
		}
		// repeated field built as a pre-sized slice whose elements are
		// assigned by index (`xs := make([][]byte, n); xs[i] = data[a:b]`)
		if n, ok := freshFixedSlice(v); ok {
			got := map[int64]seg{}
			bad := ""
			e.Walk(fn, false, func(in ssa.Instruction, fr flow.Frame) {
				st, ok := in.(*ssa.Store)
				if !ok {
					return
				}
				ia, ok := st.Addr.(*ssa.IndexAddr)
				if !ok || !flow.Eq(flow.StripConv(e.Eval(ia.X, fr.Ctx)), v) {
					return
				}
				idx, val := e.Eval(ia.Index, fr.Ctx), e.Eval(st.Val, fr.Ctx)
				trips := int64(1)
				if loop, ok := hasIter(idx); ok {
					tc, ok := tripCount(e, fn, loop)
					if !ok {
						bad = "element store in a loop without a constant trip count"
						return
					}
					trips = tc
				}
				for k := int64(0); k < trips; k++ {
					at, ok := affine(idx, k)
					lo, hi, ok2 := sliceOf(val, k)
					if !ok || !ok2 {
						bad = "element " + truncate(idx.String(), 60) + " is not an affine slice of the input"
						return
					}
					if _, dup := got[at]; dup {
						bad = fmt.Sprintf("element %d assigned more than once", at)
						return
					}
					got[at] = seg{lo, hi, fi.Name, "bytes", int(at), pos}
				}
			})
			if bad == "" && int64(len(got)) != n {
				bad = fmt.Sprintf("%d of %d elements assigned", len(got), n)
			}
			if bad != "" {
				problems = append(problems, fi.Name+": "+bad)
				continue
			}
			for k := int64(0); k < n; k++ {
				segs = append(segs, got[k])
			}
			continue
		}
		problems = append(problems, fmt.Sprintf("field %s is not a slice / little-endian integer of the input: %s", fi.Name, truncate(v.String(), 140)))
	}
	sort.Slice(segs, func(i, j int) bool { return segs[i].lo < segs[j].lo })
	return
}

// freshFixedSlice: the whole of a freshly allocated array of constant length
// (what `make([]T, n)` with a constant n evaluates to).
func freshFixedSlice(t *flow.Term) (int64, bool) {
	t = flow.StripConv(t)
	if t.Op != flow.OpSlice || len(t.Args) != 3 {
		return 0, false
	}
	d := flow.StripConv(t.Args[0])
	if d.Op != flow.OpDeref || len(d.Args) != 1 || d.Args[0].Op != flow.OpNew {
		return 0, false
	}
	n, ok := arrayLenOf(d)
	if !ok || !(t.Args[1].IsConst("") || t.Args[1].IsConst("0")) || !(t.Args[2].IsConst("") || t.Args[2].IsConst(fmt.Sprint(n))) {
		return 0, false
	}
	return n, true
}

// protoOracle derives the fixed layouts from proto/tdx.proto: fields in
// declaration order, sizes from the "should be N bytes" comments.
func protoOracle(dir string, rtmrs int64) (map[string][]seg, error) {
	b, err := os.ReadFile(filepath.Join(dir, "proto", "tdx.proto"))
	if err != nil {
		return nil, err
	}
	// widths the .proto does not state: Intel TDX DCAP quote v4 header
	headerWidths := map[string]int64{"version": 2, "attestation_key_type": 2, "tee_type": 4}
	out := map[string][]seg{}
	msgRe := regexp.MustCompile(`(?s)message\s+(\w+)\s*\{(.*?)\n\}`)
	fieldRe := regexp.MustCompile(`(?m)^[ \t]*(repeated\s+)?(bytes|uint32)\s+(\w+)\s*=\s*\d+;[ \t]*(?://\s*should be (\d+)([ \t]*\*[ \t]*rtmrsCount)?(?:[ \t]*bytes?)?)?`)
	for _, m := range msgRe.FindAllStringSubmatch(string(b), -1) {
		name, body := m[1], m[2]
		if name != "Header" && name != "TDQuoteBody" && name != "EnclaveReport" {
			continue
		}
		off := int64(0)
		for _, f := range fieldRe.FindAllStringSubmatch(body, -1) {
			rep, typ, fname, szs := f[1] != "", f[2], f[3], f[4]
			var sz int64
			if szs != "" {
				sz, _ = strconv.ParseInt(szs, 10, 64)
			} else if w, ok := headerWidths[fname]; ok && name == "Header" {
				sz = w
			} else {
				return nil, fmt.Errorf("no size known for %s.%s", name, fname)
			}
			kind := "bytes"
			if typ == "uint32" {
				kind = fmt.Sprintf("u%d", sz*8)
			}
			goName := ""
			for _, p := range strings.Split(fname, "_") {
				goName += strings.ToUpper(p[:1]) + p[1:]
			}
			if rep {
				for k := int64(0); k < rtmrs; k++ {
					out[name] = append(out[name], seg{off, off + sz, goName, kind, int(k), "proto/tdx.proto"})
					off += sz
				}
				continue
			}
			out[name] = append(out[name], seg{off, off + sz, goName, kind, -1, "proto/tdx.proto"})
			off += sz
		}
	}
	// reserved-byte exception of the v4 header: the code places PCE SVN at [8,10) and
	// QE SVN at [10,12); these bytes are reserved in v4, the placement is frozen as is.
	for i, s := range out["Header"] {
		switch s.field {
		case "QeSvn":
			out["Header"][i].lo, out["Header"][i].hi = 10, 12
		case "PceSvn":
			out["Header"][i].lo, out["Header"][i].hi = 8, 10
		}
	}
	sort.Slice(out["Header"], func(i, j int) bool { return out["Header"][i].lo < out["Header"][j].lo })
	return out, nil
}

func segsEqual(a, b []seg) (bool, string) {
	am, bm := map[string]seg{}, map[string]seg{}
	for _, s := range a {
		am[s.key()] = s
	}
	for _, s := range b {
		bm[s.key()] = s
	}
	for k, s := range am {
		t, ok := bm[k]
		if !ok {
			return false, "missing " + k
		}
		if s.lo != t.lo || s.hi != t.hi || s.kind != t.kind {
			return false, fmt.Sprintf("%s vs %s", s, t)
		}
	}
	for k := range bm {
		if _, ok := am[k]; !ok {
			return false, "extra " + k
		}
	}
	return true, ""
}

// tiling checks that segs are pairwise disjoint and cover [0,size).
func tiling(segs []seg, size int64) string {
	off := int64(0)
	for _, s := range segs {
		if s.lo > off {
			return fmt.Sprintf("gap [%d,%d) before %s", off, s.lo, s.key())
		}
		if s.lo < off {
			return fmt.Sprintf("%s overlaps the previous field at %d", s.key(), s.lo)
		}
		off = s.hi
	}
	if off != size {
		return fmt.Sprintf("fields end at %d, buffer size %d", off, size)
	}
	return ""
}

var fixedLayouts = []struct{ msg, ser, par, chk string }{
	{"Header", "HeaderToAbiBytes", "headerToProto", "checkHeader"},
	{"TDQuoteBody", "TdQuoteBodyToAbiBytes", "tdQuoteBodyToProto", "checkTDQuoteBody"},
	{"EnclaveReport", "EnclaveReportToAbiBytes", "enclaveReportToProto", "checkQeReport"},
}

// layoutObligations decides tiling, agreement and the independent oracle for
// the named serialisers (all three when names is nil), under property prop.
func layoutObligations(env *Env, prop string, names []string) {
	r := env.R
	rtmrs, _ := strconv.ParseInt(env.repoConst("abi", "rtmrsCount"), 10, 64)
	oracle, err := protoOracle(env.P.Cfg.Dir, rtmrs)
	if err != nil {
		r.Undecided(prop+"/LAYOUT", "oracle", "proto/tdx.proto", "cannot derive the layout oracle: "+err.Error())
		return
	}
	want := map[string]bool{}
	for _, n := range names {
		want[n] = true
	}
	for _, fl := range fixedLayouts {
		if len(names) > 0 && !want[fl.ser] {
			continue
		}
		ser, par := env.fn("abi", fl.ser), env.fn("abi", fl.par)
		if ser == nil || par == nil {
			continue
		}
		e := env.engine()
		ss, size, probs := env.serialiserLayout(e, ser)
		where := env.P.Pos(ser.Pos())
		for _, p := range probs {
			r.Undecided(prop+"/LAYOUT", fl.ser+"#extract:"+p, where, fl.ser+": "+p)
		}
		if len(probs) == 0 {
			if t := tiling(ss, size); t == "" {
				r.OK(prop+"/LAYOUT", fl.ser+"#tiling", where, fmt.Sprintf("%d fields tile [0,%d) without gap or overlap", len(ss), size))
			} else {
				r.Fail(prop+"/LAYOUT", fl.ser+"#tiling", where, fl.ser+" does not tile its output: "+t)
			}
			if ok, why := segsEqual(ss, oracle[fl.msg]); ok {
				r.OK(prop+"/LAYOUT", fl.ser+"#oracle", where, "equals the layout derived from proto/tdx.proto")
			} else {
				r.Fail(prop+"/LAYOUT", fl.ser+"#oracle", where, fl.ser+" disagrees with the v4 layout derived from proto/tdx.proto: "+why)
			}
		}
		// narrowing conversions in the serialiser are covered by the validity predicate
		env.narrowingCovered(e, ser, prop, fl.ser)
		if prop != "C09" {
			continue
		}
		ps, pprobs := env.parserLayout(env.engine(), par)
		pw := env.P.Pos(par.Pos())
		for _, p := range pprobs {
			r.Undecided(prop+"/LAYOUT", fl.par+"#extract:"+p, pw, fl.par+": "+p)
		}
		if len(pprobs) == 0 && len(probs) == 0 {
			if ok, why := segsEqual(ps, ss); ok {
				r.OK(prop+"/LAYOUT", fl.msg+"#agreement", pw, "parser and serialiser place every field at the same bytes with the same width and byte order")
			} else {
				r.Fail(prop+"/LAYOUT", fl.msg+"#agreement", pw, fmt.Sprintf("%s and %s disagree: %s", fl.par, fl.ser, why))
			}
			if ok, why := segsEqual(ps, oracle[fl.msg]); ok {
				r.OK(prop+"/LAYOUT", fl.par+"#oracle", pw, "equals the layout derived from proto/tdx.proto")
			} else {
				r.Fail(prop+"/LAYOUT", fl.par+"#oracle", pw, fl.par+" disagrees with the v4 layout derived from proto/tdx.proto: "+why)
			}
			if t := tiling(ps, size); t != "" {
				r.Fail(prop+"/LAYOUT", fl.par+"#tiling", pw, fl.par+" does not consume its input exactly: "+t)
			} else {
				r.OK(prop+"/LAYOUT", fl.par+"#tiling", pw, "every input byte goes to exactly one field")
			}
		}
		// sizes demanded by the validity predicate equal the layout's widths
		env.predicateSizes(fl.chk, ss, prop)
	}
}

// narrowingCovered: every PutUint16(.., uint16(msg.F)) in fn is preceded by the gate msg.F < 65536.
func (env *Env) narrowingCovered(e *flow.Engine, fn *ssa.Function, prop, name string) {
	r := env.R
	msg := param(fn, 0)
	alts := e.EntryPaths(fn, flow.ModeErr)
	for _, b := range fn.Blocks {
		for _, in := range b.Instrs {
			c, ok := in.(*ssa.Call)
			if !ok || c.Call.StaticCallee() == nil || c.Call.StaticCallee().String() != "(encoding/binary.littleEndian).PutUint16" {
				continue
			}
			conv, ok := c.Call.Args[2].(*ssa.Convert)
			if !ok {
				continue
			}
			src := e.Eval(conv.X, e.Root(fn))
			f, _, ok := fieldOfMsg(src, msg, 0)
			if !ok {
				continue
			}
			okAll := len(alts) > 0
			for _, a := range alts {
				if hasGateAny(a, pat.Bin("<", pat.Is(fieldT(msg, f)), pat.Const("65536"))) == nil {
					okAll = false
				}
			}
			if okAll {
				r.OK(prop+"/NARROW", name+"."+f, env.P.Pos(c.Pos()), "uint16("+f+") dominated by "+f+" < 65536")
			} else {
				r.Fail(prop+"/NARROW", name+"."+f, env.P.Pos(c.Pos()), fmt.Sprintf("%s serialises only the low 16 bits of %s without a gate %s < 65536: two messages differing in the high bits serialise (and are signature-checked) identically", name, f, f))
			}
		}
	}
}

// predicateSizes: check<msg> demands len(field) == width for every bytes field of the layout.
func (env *Env) predicateSizes(chk string, segs []seg, prop string) {
	r := env.R
	fn := env.fn("abi", chk)
	if fn == nil {
		return
	}
	e := env.engine()
	msg := param(fn, 0)
	alts := e.EntryPaths(fn, flow.ModeErr)
	for _, s := range segs {
		if s.kind != "bytes" {
			continue
		}
		var m pat.M
		if s.elem >= 0 {
			m = pat.Bin("==", pat.Len(pat.Op(flow.OpIndex, "", pat.Is(fieldT(msg, s.field)), pat.Any())), pat.Const(fmt.Sprint(s.hi-s.lo)))
		} else {
			m = pat.Bin("==", pat.Len(pat.Is(fieldT(msg, s.field))), pat.Const(fmt.Sprint(s.hi-s.lo)))
		}
		ok := len(alts) > 0
		for _, a := range alts {
			if hasGateAny(a, m) == nil {
				ok = false
			}
		}
		if ok {
			r.OK(prop+"/PRED", chk+"."+s.key(), env.P.Pos(fn.Pos()), fmt.Sprintf("len(%s) == %d enforced", s.key(), s.hi-s.lo))
		} else {
			r.Fail(prop+"/PRED", chk+"."+s.key(), env.P.Pos(fn.Pos()), fmt.Sprintf("%s does not demand len(%s) == %d, the width the layout gives that field", chk, s.key(), s.hi-s.lo))
		}
	}
	_ = load.RepoModule
}

// tableIter finds, in the destination / source of a write, the loop counter
// that indexes a finite literal sequence (a table of rows), and its length.
func tableIter(ts ...*flow.Term) (*flow.Term, int) {
	var it *flow.Term
	rows := 0
	for _, t := range ts {
		if t == nil {
			continue
		}
		t.Walk(func(x *flow.Term) bool {
			if it != nil {
				return false
			}
			if x.Op == flow.OpIndex && len(x.Args) == 2 {
				if i := flow.StripConv(x.Args[1]); i.Op == flow.OpIter {
					if els, ok := flow.SeqElems(x.Args[0]); ok && len(els) > 0 && len(els) <= 64 {
						it, rows = i, len(els)
						return false
					}
				}
			}
			return true
		})
	}
	return it, rows
}
