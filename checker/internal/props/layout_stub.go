package props

// layoutObligations is implemented in layout.go (E1); placeholder until then.
func layoutObligations(env *Env, prop string, serialisers []string) {}
