package props

import (
	"fmt"
	"go/token"
	"go/types"
	"strings"

	"golang.org/x/tools/go/ssa"

	"tdxlint/internal/flow"
	"tdxlint/internal/load"
	"tdxlint/internal/pat"
)

func init() { Registry["C13"] = C13 }

var pckOIDs = map[string]string{
	"OidSgxExtension":          "1,2,840,113741,1,13,1",
	"OidPPID":                  "1,2,840,113741,1,13,1,1",
	"OidTCB":                   "1,2,840,113741,1,13,1,2",
	"OidPCESvn":                "1,2,840,113741,1,13,1,2,17",
	"OidCPUSvn":                "1,2,840,113741,1,13,1,2,18",
	"OidPCEID":                 "1,2,840,113741,1,13,1,3",
	"OidFMSPC":                 "1,2,840,113741,1,13,1,4",
	"sgxTcbComponentOidPrefix": "1,2,840,113741,1,13,1,2",
}

func arrayInts(t *flow.Term) (string, bool) {
	t = flow.StripConv(t)
	if t.Op == flow.OpSlice {
		t = flow.StripConv(t.Args[0])
	}
	if t.Op != flow.OpArray {
		return "", false
	}
	var xs []string
	for _, a := range t.Args {
		n, ok := flow.ConstInt(a)
		if !ok {
			return "", false
		}
		xs = append(xs, fmt.Sprint(n))
	}
	return strings.Join(xs, ","), true
}

// storesTo lists stores in pkg functions to field `field` of struct type `typ`.
func (env *Env) storesTo(typ, field string) []*ssa.Store {
	var out []*ssa.Store
	for k, ss := range env.P.FieldSt {
		if k.Type == load.RepoPath("")+"/"+typ && k.Field == field || strings.HasSuffix(k.Type, "/"+typ) && k.Field == field {
			out = append(out, ss...)
		}
	}
	return out
}

// C13: PCK certificate SGX extension values are extracted exactly.
func C13(env *Env) {
	r := env.R
	r.Explanation = "OID table: the exported OID variables and the component prefix have the values of Intel's PCK certificate specification and are initialised once. Selection: each result field (PPID, PCEID, FMSPC, TCB; PCESVN, CPUSVN, the 16 component SVNs) has exactly one store, guarded by Equal(element OID, its own OID variable) on the element the value is decoded from, with the field's own size constant; component i is selected by prefix||(i+1) and stored at index i of the same induction variable, which runs over all 16 indices from 0 for every element (order independence). Ranges: byte(v)/uint16(v) are dominated by 0 <= v <= 255 / 65535 after a comma-ok int64 assertion; CPUSVN is a comma-ok []byte of length 16. Structure: extension count 6, SGX sequence >= 4, TCB pair 2, 18 TCB elements. Every asn1.Unmarshal has its error and its leftover bytes on reject edges."
	r.TrustedBase = []string{"encoding/asn1 DER decoding, encoding/hex", "go/ssa, go/types"}
	r.NotCovered = []string{"an element that is absent (duplicate OIDs making up the count) leaves a zero value — outside the statement's listed error cases"}
	e := env.engine()
	// ---- OID table
	sp := env.P.SSA[load.RepoPath("pcs")]
	if sp == nil {
		r.Undecided("C13/OID", "package", "", "pcs package not loaded")
		return
	}
	for name, want := range pckOIDs {
		g := env.P.Global("pcs", name)
		if g == nil {
			r.Fail("C13/OID", name, "", "pcs."+name+" not found")
			continue
		}
		sts := env.P.GlobalSt[g]
		if len(sts) != 1 || !strings.HasPrefix(sts[0].Parent().Name(), "init") {
			r.Fail("C13/OID", name, "", fmt.Sprintf("pcs.%s must be initialised exactly once by the package initialiser (%d stores)", name, len(sts)))
			continue
		}
		v := e.Eval(sts[0].Val, e.UnknownCtx(sts[0].Parent()))
		if got, ok := arrayInts(v); ok && got == want {
			r.OK("C13/OID", name, env.P.Pos(sts[0].Pos()), "= "+strings.ReplaceAll(want, ",", "."))
		} else {
			r.Fail("C13/OID", name, env.P.Pos(sts[0].Pos()), fmt.Sprintf("pcs.%s must be %s; is %s", name, strings.ReplaceAll(want, ",", "."), v))
		}
	}
	env.c13Fields(e)
	env.c13Tcb(e)
	env.c13Structure(e)
	env.c13Unmarshal(e)
	env.c13Asserts(e)
	if entry := env.fn("pcs", "PckCertificateExtensions"); entry != nil {
		env.errorsNotLost("C13/ERRFLOW", env.calleesBelow(entry))
	}
	r.Floor("C13/ERRFLOW", 10)
	r.Floor("C13/OID", 8)
	r.Floor("C13/SEL", 5)
	r.Floor("C13/TCB", 5)
	r.Floor("C13/RANGE", 4)
	r.Floor("C13/STRUCT", 4)
	r.Floor("C13/UNMARSHAL", 12)
	r.Floor("C13/ASSERT", 2)
}

// guardHas reports whether every alternative of gates reaching block b of fn has a gate matching m.
func (env *Env) guardHas(e *flow.Engine, fn *ssa.Function, b *ssa.BasicBlock, m pat.M) bool {
	alts := e.GatesAt(fn, e.Root(fn), b.Index)
	if len(alts) == 0 {
		return false
	}
	for _, a := range alts {
		found := false
		for _, g := range a.Gates {
			if m(g.Pred, pat.Bind{}) {
				found = true
			}
		}
		if !found {
			return false
		}
	}
	return true
}

// c13Fields: PPID / PCEID / FMSPC / TCB selection in extractSgxExtensions.
func (env *Env) c13Fields(e *flow.Engine) {
	r := env.R
	fn := env.fn("pcs", "extractSgxExtensions")
	if fn == nil {
		return
	}
	exts := param(fn, 0)
	var loop string
	it := iterFrom(pat.Const("0"), &loop)
	elem := pat.Op(flow.OpIndex, "", pat.Is(exts), it)
	typeOf := pat.Field(pat.Call("decode:encoding/asn1.Unmarshal", pat.Field(elem, "FullBytes")), "Type")
	// stores into the result's fields on the inlined call tree, each on its call
	// string (a store through a pointer parameter of a helper or function
	// literal counts once per call that hands it a field's address)
	type fstore struct {
		st *ssa.Store
		fr flow.Frame
	}
	fieldStores := map[string][]fstore{}
	e.Walk(fn, false, func(in ssa.Instruction, fr flow.Frame) {
		st, ok := in.(*ssa.Store)
		if !ok {
			return
		}
		at := e.Eval(st.Addr, fr.Ctx)
		if at.Op != flow.OpAddr || len(at.Args) != 1 || at.Args[0].Op != flow.OpField || len(at.Args[0].Args) != 1 {
			return
		}
		base := flow.StripConv(at.Args[0].Args[0])
		if base.Op == flow.OpNew && strings.HasPrefix(base.Name, "pcs.PckExtensions#") {
			fieldStores[at.Args[0].Name] = append(fieldStores[at.Args[0].Name], fstore{st, fr})
		}
	})
	for _, f := range []struct{ field, oid, size, label string }{
		{"PPID", "pcs.OidPPID", env.repoConst("pcs", "ppidSize"), `"PPID"`},
		{"PCEID", "pcs.OidPCEID", env.repoConst("pcs", "pceIDSize"), `"PCEID"`},
		{"FMSPC", "pcs.OidFMSPC", env.repoConst("pcs", "fmspcSize"), `"FMSPC"`},
	} {
		sts := fieldStores[f.field]
		if len(sts) != 1 {
			r.Fail("C13/SEL", f.field, env.P.Pos(fn.Pos()), fmt.Sprintf("PckExtensions.%s must have exactly one store, in the selection loop (found %d)", f.field, len(sts)))
			continue
		}
		st, sfr := sts[0].st, sts[0].fr
		guard := pat.Call("(encoding/asn1.ObjectIdentifier).Equal", typeOf, pat.Global(f.oid))
		okGuard := env.guardHasFr(e, sfr, st.Block(), guard)
		v := e.Eval(st.Val, sfr.Ctx)
		// value: hex of the octet string of the same element with the field's own size
		wantSize := pat.Const(f.size)
		okVal := pat.Contains(pat.Call("encoding/hex.EncodeToString", pat.Any()))(v, pat.Bind{}) &&
			pat.Contains(elem)(v, pat.Bind{}) && valueUsesSize(e, st, wantSize, sfr.Ctx)
		if okGuard && okVal {
			r.OK("C13/SEL", f.field, env.P.Pos(st.Pos()), "stored under Equal(element OID, "+f.oid+") from the same element with size "+f.size)
		} else {
			r.Fail("C13/SEL", f.field, env.P.Pos(st.Pos()), fmt.Sprintf("PckExtensions.%s must be assigned only under Equal(element.Type, %s) (%v) from hex(octet string of that same element, size %s) (%v)", f.field, f.oid, okGuard, f.size, okVal))
		}
	}
	// TCB
	if sts := fieldStores["TCB"]; len(sts) == 1 {
		guard := pat.Call("(encoding/asn1.ObjectIdentifier).Equal", typeOf, pat.Global("pcs.OidTCB"))
		if env.guardHasFr(e, sts[0].fr, sts[0].st.Block(), guard) {
			r.OK("C13/SEL", "TCB", env.P.Pos(sts[0].st.Pos()), "stored under Equal(element OID, pcs.OidTCB)")
		} else {
			r.Fail("C13/SEL", "TCB", env.P.Pos(sts[0].st.Pos()), "PckExtensions.TCB must be assigned only under Equal(element.Type, pcs.OidTCB)")
		}
	} else {
		r.Fail("C13/SEL", "TCB", env.P.Pos(fn.Pos()), fmt.Sprintf("PckExtensions.TCB must have exactly one store in the selection loop (found %d)", len(sts)))
	}
	// the selection loop visits every element
	g := e.GraphOf(fn, e.Root(fn))
	for _, l := range g.Loops {
		head := fn.Blocks[l.Head]
		if iff, ok := head.Instrs[len(head.Instrs)-1].(*ssa.If); ok {
			dom := e.Eval(iff.Cond, e.Root(fn))
			if pat.Bin("<", iterFrom(pat.Const("0"), nil), pat.Len(pat.Is(exts)))(dom, pat.Bind{}) {
				r.OK("C13/SEL", "loop-all-elements", env.P.Pos(iff.Pos()), "range over all SGX extension elements (selection by OID, not by position)")
				return
			}
		}
	}
	r.Fail("C13/SEL", "loop-all-elements", env.P.Pos(fn.Pos()), "the SGX extension elements must be scanned by a loop over all of them (selection by OID)")
}

// valueUsesSize: the call chain producing the stored value passes the size constant.
func valueUsesSize(e *flow.Engine, st *ssa.Store, size pat.M, ctx *flow.Ctx) bool {
	v := st.Val
	for i := 0; i < 4; i++ {
		switch x := v.(type) {
		case *ssa.Extract:
			v = x.Tuple
			continue
		case *ssa.Call:
			for _, a := range x.Call.Args {
				if size(e.Eval(a, ctx), pat.Bind{}) {
					return true
				}
			}
		}
		break
	}
	return false
}

// c13Tcb: the TCB sequence.
func (env *Env) c13Tcb(e *flow.Engine) {
	r := env.R
	fn := env.fn("pcs", "extractTcbExtension")
	if fn == nil {
		return
	}
	where := env.P.Pos(fn.Pos())
	elems := param(fn, 0)
	tcb := param(fn, 1)
	g := e.GraphOf(fn, e.Root(fn))
	u16 := env.fn("pcs", "asn1U16")
	u8 := env.fn("pcs", "asn1U8")
	// every instruction on the inlined call tree below the function, on its
	// call string: stores and range-check calls may sit in the function itself,
	// in a helper, or in a method of a small type carrying the walk's state
	type site struct {
		in ssa.Instruction
		fr flow.Frame
	}
	var comp, cpu, cs, pce, u8c, u16c []site
	var frames []flow.Frame
	seenFr := map[string]bool{}
	seenIn := map[ssa.Instruction]bool{}
	add := func(l *[]site, in ssa.Instruction, fr flow.Frame) {
		if !seenIn[in] {
			seenIn[in] = true
			*l = append(*l, site{in, fr})
		}
	}
	e.Walk(fn, false, func(in ssa.Instruction, fr flow.Frame) {
		if k := fmt.Sprintf("%p/%p", fr.Fn, fr.Ctx); !seenFr[k] {
			seenFr[k] = true
			frames = append(frames, fr)
		}
		switch x := in.(type) {
		case *ssa.Store:
			switch a := x.Addr.(type) {
			case *ssa.IndexAddr:
				ixt := flow.StripConv(e.Eval(a.Index, fr.Ctx))
				if _, isSlice := a.X.Type().Underlying().(*types.Slice); isSlice && ixt.Contains(func(t *flow.Term) bool { return t.Op == flow.OpIter }) {
					add(&comp, in, fr)
				}
			case *ssa.FieldAddr:
				if k, ok := load.FieldKeyOf(a.X.Type(), a.Field); ok && strings.HasSuffix(k.Type, "/pcs.PckCertTCB") {
					switch k.Field {
					case "CPUSvn":
						add(&cpu, in, fr)
					case "PCESvn":
						add(&pce, in, fr)
					case "CPUSvnComponents":
						add(&cs, in, fr)
					}
				}
			}
		case *ssa.Call:
			switch cal := x.Call.StaticCallee(); {
			case cal != nil && cal == u8:
				add(&u8c, in, fr)
			case cal != nil && cal == u16:
				add(&u16c, in, fr)
			}
		}
	})
	// component store: tcbComponents[i] = val
	var compStore *ssa.Store
	var compFr flow.Frame
	for i, c := range comp {
		if i == 0 {
			compStore, compFr = c.in.(*ssa.Store), c.fr
		} else {
			r.Fail("C13/TCB", "component-single-store", env.P.Pos(c.in.Pos()), "the component vector must be written at exactly one site")
		}
	}
	if compStore == nil {
		r.Fail("C13/TCB", "component-store", where, "no store into the component SVN vector found")
	} else {
		ia := compStore.Addr.(*ssa.IndexAddr)
		idx := e.Eval(ia.Index, compFr.Ctx)
		var inner string
		isIter := iterFrom(pat.Const("0"), &inner)(idx, pat.Bind{})
		if !isIter && compFr.Fn == fn {
			// the index comes out of a lookup helper (`i, found := indexOf(oid)`): decide
			// on the alternatives that reach the store, where the helper's exit is definite
			env.c13TcbViaHelper(e, fn, compStore, elems, g)
			goto rest
		}
		// guard: Equal(tcbValue.Type, prefix || (i+1)) with the same i
		oidM := pat.Conv(pat.Concat(pat.Global("pcs.sgxTcbComponentOidPrefix"), pat.Pred(func(t *flow.Term) bool {
			// the appended element: i + 1 of the same induction variable
			return t.Contains(func(x *flow.Term) bool {
				return x.Op == flow.OpIter && strings.HasPrefix(x.Name, inner) && len(x.Args) == 2 && x.Args[0].IsConst("1") && x.Args[1].IsConst("1")
			})
		})))
		guard := pat.Call("(encoding/asn1.ObjectIdentifier).Equal", pat.Any(), oidM)
		okGuard := env.guardHasFr(e, compFr, compStore.Block(), guard)
		// inner loop bound 16, outer loop over all elements
		okBound := false
		okOuter := false
		for _, lf := range frames {
			lg := e.GraphOf(lf.Fn, lf.Ctx)
			for _, l := range lg.Loops {
				head := lf.Fn.Blocks[l.Head]
				iff, ok := head.Instrs[len(head.Instrs)-1].(*ssa.If)
				if !ok {
					continue
				}
				dom := e.Eval(iff.Cond, lf.Ctx)
				if l.ID == inner && pat.Bin("<", iterFrom(pat.Const("0"), nil), pat.Const(env.repoConst("pcs", "tcbComponentSize")))(dom, pat.Bind{}) {
					okBound = true
				}
				if pat.Bin("<", iterFrom(pat.Const("0"), nil), pat.Len(pat.Is(elems)))(dom, pat.Bind{}) {
					okOuter = true
				}
			}
		}
		if isIter && okGuard && okBound && okOuter {
			r.OK("C13/TCB", "component-index", env.P.Pos(compStore.Pos()), "component i stored at index i under Equal(OID, prefix||i+1); i runs over 0..15 for every element; every element visited")
		} else {
			r.Fail("C13/TCB", "component-index", env.P.Pos(compStore.Pos()), fmt.Sprintf("component SVN i must be stored at index i (%v) under Equal(element OID, prefix||(i+1)) of the same i (%v), with i running over all 16 indices from 0 for every element (%v) and every element visited (%v) — otherwise extraction depends on the order of the elements", isIter, okGuard, okBound, okOuter))
		}
	}
rest:
	// PCESvn store through asn1U16; CPUSvn store
	for _, c := range []struct {
		fn   *ssa.Function
		name string
		max  string
	}{{u8, "asn1U8", "255"}, {u16, "asn1U16", "65535"}} {
		if c.fn == nil {
			continue
		}
		ee := env.engine()
		alts := ee.EntryPaths(c.fn, flow.ModeErr)
		ext := param(c.fn, 0)
		val := pat.Res("0", pat.Op(flow.OpAssert, "int64,ok", pat.Field(pat.Is(ext), "Value")))
		env.requireGates(ee, alts, "", []gateSpec{
			{rule: "RANGE", name: c.name + "-int64", m: pat.Res("1", pat.Op(flow.OpAssert, "int64,ok", pat.Field(pat.Is(ext), "Value"))), expect: "value is an int64 (comma-ok assertion)"},
			{rule: "RANGE", name: c.name + "-nonneg", m: pat.Bin("<=", pat.Const("0"), pat.Field(pat.Is(ext), "Value")), expect: "0 <= value"},
			{rule: "RANGE", name: c.name + "-max", m: pat.Bin("<=", pat.Field(pat.Is(ext), "Value"), pat.Const(c.max)), expect: "value <= " + c.max},
		})
		_ = val
		// the out parameter receives the converted value
		okStore := false
		if len(c.fn.Params) > 2 {
			for _, b := range c.fn.Blocks {
				for _, in := range b.Instrs {
					if st, ok := in.(*ssa.Store); ok && st.Addr == ssa.Value(c.fn.Params[2]) {
						v := ee.Eval(st.Val, ee.Root(c.fn))
						if pat.Conv(pat.Field(pat.Is(ext), "Value"))(v, pat.Bind{}) {
							okStore = true
						}
					}
				}
			}
		} else if c.fn.Signature.Results().Len() == 2 {
			// the value-returning form: every success return yields the converted value
			okStore = len(alts) > 0
			for _, a := range alts {
				if len(a.Results) == 0 || !pat.Conv(pat.Field(pat.Is(ext), "Value"))(a.Results[0], pat.Bind{}) {
					okStore = false
				}
			}
		}
		if okStore {
			r.OK("C13/RANGE", c.name+"-out", env.P.Pos(c.fn.Pos()), "*out = converted value")
		} else {
			r.Fail("C13/RANGE", c.name+"-out", env.P.Pos(c.fn.Pos()), c.name+" must store the (range-checked) value itself into *out")
		}
	}
	// PCESvn / CPUSvn selection
	typeOfElem := pat.Field(pat.Call("decode:encoding/asn1.Unmarshal", pat.Any()), "Type")
	for _, sc := range u16c {
		c := sc.in.(*ssa.Call)
		okOut := false
		if len(c.Call.Args) > 2 {
			out := e.Eval(c.Call.Args[2], sc.fr.Ctx)
			okOut = out.Op == flow.OpAddr && flow.Eq(out.Args[0], fieldT(tcb, "PCESvn"))
		} else if len(pce) == 1 {
			// the value-returning form: tcb.PCESvn = the helper's value
			st := pce[0].in.(*ssa.Store)
			if ex, ok := st.Val.(*ssa.Extract); ok && ex.Tuple == ssa.Value(c) && ex.Index == 0 {
				okOut = flow.Eq(flow.StripConv(e.Eval(st.Addr.(*ssa.FieldAddr).X, pce[0].fr.Ctx)), tcb)
			}
		}
		okGuard := env.guardHasFr(e, sc.fr, c.Block(), pat.Call("(encoding/asn1.ObjectIdentifier).Equal", typeOfElem, pat.Global("pcs.OidPCESvn")))
		if okOut && okGuard {
			r.OK("C13/TCB", "PCESvn", env.P.Pos(c.Pos()), "tcb.PCESvn assigned under Equal(OID, pcs.OidPCESvn) through the 16-bit range check")
		} else {
			r.Fail("C13/TCB", "PCESvn", env.P.Pos(c.Pos()), fmt.Sprintf("PCESVN must go to tcb.PCESvn (%v) under Equal(element OID, pcs.OidPCESvn) (%v)", okOut, okGuard))
		}
	}
	if len(cpu) == 1 {
		st := cpu[0].in.(*ssa.Store)
		sfr := cpu[0].fr
		val := pat.Field(pat.Call("decode:encoding/asn1.Unmarshal", pat.Any()), "Value")
		okGuard := env.guardHasFr(e, sfr, st.Block(), pat.Call("(encoding/asn1.ObjectIdentifier).Equal", typeOfElem, pat.Global("pcs.OidCPUSvn")))
		okType := env.guardHasFr(e, sfr, st.Block(), pat.Res("1", pat.Op(flow.OpAssert, "[]byte,ok", val)))
		okLen := env.guardHasFr(e, sfr, st.Block(), pat.Bin("==", pat.Len(val), pat.Const(env.repoConst("pcs", "cpuSvnSize"))))
		okDst := flow.Eq(flow.StripConv(e.Eval(st.Addr.(*ssa.FieldAddr).X, sfr.Ctx)), tcb)
		if okGuard && okType && okLen && okDst {
			r.OK("C13/TCB", "CPUSvn", env.P.Pos(st.Pos()), "tcb.CPUSvn assigned under Equal(OID, pcs.OidCPUSvn), comma-ok []byte, length 16")
		} else {
			r.Fail("C13/TCB", "CPUSvn", env.P.Pos(st.Pos()), fmt.Sprintf("CPUSVN must be assigned to the result's CPUSvn (%v) under Equal(element OID, pcs.OidCPUSvn) (%v) after a comma-ok []byte assertion (%v) and a length == 16 check (%v)", okDst, okGuard, okType, okLen))
		}
	} else {
		r.Fail("C13/TCB", "CPUSvn", where, fmt.Sprintf("tcb.CPUSvn must have exactly one store (found %d)", len(cpu)))
	}
	// the component value comes from asn1U8 on the same element
	if compStore != nil && u8 != nil {
		if len(u8c) == 1 {
			r.OK("C13/TCB", "component-range-checked", env.P.Pos(compStore.Pos()), "component value obtained through asn1U8")
		} else {
			r.Fail("C13/TCB", "component-range-checked", env.P.Pos(compStore.Pos()), "each component SVN must pass the 8-bit range check (asn1U8) exactly once")
		}
	}
	// CPUSvnComponents = the filled vector
	okVec := false
	if len(cs) == 1 && compStore != nil {
		st := cs[0].in.(*ssa.Store)
		vecX := compStore.Addr.(*ssa.IndexAddr).X
		okVec = st.Val == vecX || flow.Eq(flow.StripConv(e.Eval(st.Val, cs[0].fr.Ctx)), flow.StripConv(e.Eval(vecX, compFr.Ctx)))
	}
	if okVec {
		r.OK("C13/TCB", "components-result", env.P.Pos(cs[0].in.Pos()), "tcb.CPUSvnComponents = the vector the component loop fills")
	} else {
		r.Fail("C13/TCB", "components-result", where, "tcb.CPUSvnComponents must be the vector filled by the component loop")
	}
}

// guardHasFr is guardHas for an instruction on an inlined call tree: the
// gate may be tested in the instruction's own frame or, for a helper, before
// the call in any enclosing frame.
func (env *Env) guardHasFr(e *flow.Engine, fr flow.Frame, b *ssa.BasicBlock, m pat.M) bool {
	at := func(fn *ssa.Function, ctx *flow.Ctx, blk int) bool {
		alts := e.GatesAt(fn, ctx, blk)
		if len(alts) == 0 {
			return false
		}
		for _, a := range alts {
			found := false
			for _, g := range a.Gates {
				if g.Pred != nil && m(g.Pred, pat.Bind{}) {
					found = true
				}
			}
			if !found {
				return false
			}
		}
		return true
	}
	if at(fr.Fn, fr.Ctx, b.Index) {
		return true
	}
	for c := fr.Ctx; c != nil && c.Parent != nil && c.Call != nil; c = c.Parent {
		if at(c.Call.Parent(), c.Parent, c.Call.Block().Index) {
			return true
		}
	}
	return false
}

// c13Structure: the fixed sequence sizes.
func (env *Env) c13Structure(e *flow.Engine) {
	type sg struct {
		fn, name string
		m        func(fn *ssa.Function) pat.M
	}
	dec := func(x pat.M) pat.M { return pat.Call("decode:encoding/asn1.Unmarshal", x) }
	checks := []sg{
		{"PckCertificateExtensions", "six-extensions", func(fn *ssa.Function) pat.M {
			return pat.Bin("==", pat.Len(pat.Is(fieldT(param(fn, 0), "Extensions"))), pat.Const(env.repoConst("pcs", "pckCertExtensionSize")))
		}},
		{"extractSgxExtensions", "sgx-min-four", func(fn *ssa.Function) pat.M {
			return pat.Bin("<=", pat.Const(env.repoConst("pcs", "sgxExtensionMinSize")), pat.Len(pat.Is(param(fn, 0))))
		}},
		{"extractAsn1SequenceTcbExtension", "tcb-pair", func(fn *ssa.Function) pat.M {
			return pat.Bin("==", pat.Len(dec(pat.Field(pat.Is(param(fn, 0)), "FullBytes"))), pat.Const("2"))
		}},
		{"extractAsn1SequenceTcbExtension", "tcb-eighteen", func(fn *ssa.Function) pat.M {
			return pat.Bin("==", pat.Len(dec(pat.Field(pat.Op(flow.OpIndex, "", dec(pat.Field(pat.Is(param(fn, 0)), "FullBytes")), pat.Const("1")), "FullBytes"))), pat.Const(env.repoConst("pcs", "tcbExtensionSize")))
		}},
	}
	for _, c := range checks {
		fn := env.fn("pcs", c.fn)
		if fn == nil {
			continue
		}
		ee := env.engine()
		alts := ee.EntryPaths(fn, flow.ModeErr)
		env.requireGates(ee, alts, "", []gateSpec{{rule: "STRUCT", name: c.name, m: c.m(fn), expect: c.name}})
	}
}

// c13Unmarshal: every asn1.Unmarshal in pcs has err and rest on reject edges.
func (env *Env) c13Unmarshal(e *flow.Engine) {
	r := env.R
	for _, fn := range env.P.Funcs {
		if fn.Pkg == nil || fn.Pkg.Pkg.Path() != load.RepoPath("pcs") {
			continue
		}
		var calls []*ssa.Call
		for _, b := range fn.Blocks {
			for _, in := range b.Instrs {
				if c, ok := in.(*ssa.Call); ok && c.Call.StaticCallee() != nil && c.Call.StaticCallee().String() == "encoding/asn1.Unmarshal" {
					calls = append(calls, c)
				}
			}
		}
		if len(calls) == 0 {
			continue
		}
		r.Functions[load.FuncName(fn)] = true
		ee := env.engine()
		for _, c := range calls {
			ct := ee.Eval(c, ee.Root(fn))
			key := fmt.Sprintf("%s@%s", load.FuncName(fn), env.P.Pos(c.Pos()))
			// gates must hold wherever the function continues successfully after the call:
			// check on every success alternative of the function that is reachable through the call's block
			alts := ee.EntryPaths(fn, flow.ModeErr)
			okErr, okRest, n := true, true, 0
			for _, a := range alts {
				if !(c.Block() == a.Ret.Block() || c.Block().Dominates(a.Ret.Block())) {
					continue
				}
				n++
				// (on an alternative the call's operands are definite: a lookup
				// helper's result is the one of the exit taken)
				cta := pat.OneOf(pat.Is(ct), pat.Is(ee.Eval(c, a.Ctx)))
				if hasGateAny(a, pat.Bin("==", pat.Res("1", cta), pat.Const("nil"))) == nil {
					okErr = false
				}
				if hasGateAny(a, pat.Empty(pat.Res("0", cta))) == nil {
					okRest = false
				}
			}
			if n == 0 {
				// the call is conditional (inside a loop / branch): check the gates at the blocks following it
				okErr = env.afterCallGate(ee, fn, c, pat.Bin("==", pat.Res("1", pat.Is(ct)), pat.Const("nil")))
				okRest = env.afterCallGate(ee, fn, c, pat.Empty(pat.Res("0", pat.Is(ct))))
			}
			if okErr {
				r.OK("C13/UNMARSHAL", key+"#err", env.P.Pos(c.Pos()), "error on a reject edge")
			} else {
				r.Fail("C13/UNMARSHAL", key+"#err", env.P.Pos(c.Pos()), "the error of asn1.Unmarshal must reject")
			}
			if okRest {
				r.OK("C13/UNMARSHAL", key+"#rest", env.P.Pos(c.Pos()), "leftover bytes on a reject edge")
			} else {
				r.Fail("C13/UNMARSHAL", key+"#rest", env.P.Pos(c.Pos()), "leftover bytes after asn1.Unmarshal must reject (trailing data would be silently ignored)")
			}
		}
	}
}

func hasGateAny(a *flow.Alt, m pat.M) *flow.Gate {
	for _, g := range a.Gates {
		if m(g.Pred, pat.Bind{}) {
			return g
		}
	}
	return nil
}

// afterCallGate: every path that leaves the call's block towards a success
// return passes a test of m (used for calls inside loops): the call's block,
// or a block it dominates within the same iteration, has an If whose failing
// side cannot succeed and whose passing side asserts m.
func (env *Env) afterCallGate(e *flow.Engine, fn *ssa.Function, c *ssa.Call, m pat.M) bool {
	g := e.GraphOf(fn, e.Root(fn))
	// success returns
	for _, b := range fn.Blocks {
		ret, ok := b.Instrs[len(b.Instrs)-1].(*ssa.Return)
		if !ok || e.RetIsFail(ret) || !g.Reach[b.Index] {
			continue
		}
		reach := g.CanReach(b.Index, -1)
		// walk the dominator-successor chain from the call's block
		cur := c.Block()
		found := false
		for steps := 0; steps < 8 && !found; steps++ {
			iff, ok := cur.Instrs[len(cur.Instrs)-1].(*ssa.If)
			if !ok {
				break
			}
			t := e.Eval(iff.Cond, e.Root(fn))
			s0, s1 := cur.Succs[0], cur.Succs[1]
			switch {
			case reach[s0.Index] && !reach[s1.Index]:
				if m(t, pat.Bind{}) {
					found = true
				}
				cur = s0
			case reach[s1.Index] && !reach[s0.Index]:
				if m(flow.Not(t), pat.Bind{}) {
					found = true
				}
				cur = s1
			default:
				steps = 99
			}
		}
		if !found {
			return false
		}
	}
	return true
}

// c13Asserts: a type assertion without comma-ok must be dominated by a
// successful comma-ok assertion of the same value to the same type.
func (env *Env) c13Asserts(e *flow.Engine) {
	r := env.R
	for _, fn := range env.P.Funcs {
		if fn.Pkg == nil || fn.Pkg.Pkg.Path() != load.RepoPath("pcs") {
			continue
		}
		for _, b := range fn.Blocks {
			for _, in := range b.Instrs {
				ta, ok := in.(*ssa.TypeAssert)
				if !ok {
					continue
				}
				key := fmt.Sprintf("%s@%s", load.FuncName(fn), env.P.Pos(ta.Pos()))
				if ta.CommaOk {
					r.OK("C13/ASSERT", key, env.P.Pos(ta.Pos()), "comma-ok assertion")
					continue
				}
				x := e.Eval(ta.X, e.Root(fn))
				guard := pat.Res("1", pat.Op(flow.OpAssert, load.TypeString(ta.AssertedType)+",ok", pat.Is(x)))
				if env.guardHas(e, fn, b, guard) {
					r.OK("C13/ASSERT", key, env.P.Pos(ta.Pos()), "dominated by a successful comma-ok assertion of the same value")
				} else {
					r.Fail("C13/ASSERT", key, env.P.Pos(ta.Pos()), "type assertion without comma-ok can panic on attacker-chosen ASN.1: it is not dominated by a successful comma-ok assertion of the same value to "+load.TypeString(ta.AssertedType))
				}
			}
		}
	}
	_ = token.NoPos
}

// c13TcbViaHelper: the component store's index is the result of a lookup
// helper. On every alternative reaching the store the index must be the
// helper's loop counter i (from 0), under Equal(OID, prefix||(i+1)) of the same
// i, with i < 16 the loop's bound; and the outer loop visits every element.
func (env *Env) c13TcbViaHelper(e *flow.Engine, fn *ssa.Function, st *ssa.Store, elems *flow.Term, g *flow.Graph) {
	r := env.R
	ia := st.Addr.(*ssa.IndexAddr)
	alts := e.GatesAt(fn, e.Root(fn), st.Block().Index)
	if len(alts) == 0 {
		r.Fail("C13/TCB", "component-index", env.P.Pos(st.Pos()), "the component store is unreachable")
		return
	}
	okOuter := false
	for _, l := range g.Loops {
		head := fn.Blocks[l.Head]
		if iff, ok := head.Instrs[len(head.Instrs)-1].(*ssa.If); ok {
			if pat.Bin("<", iterFrom(pat.Const("0"), nil), pat.Len(pat.Is(elems)))(e.Eval(iff.Cond, e.Root(fn)), pat.Bind{}) {
				okOuter = true
			}
		}
	}
	size := env.repoConst("pcs", "tcbComponentSize")
	for ai, a := range alts {
		idx := flow.StripConv(e.Eval(ia.Index, a.Ctx))
		var inner string
		isIter := iterFrom(pat.Const("0"), &inner)(idx, pat.Bind{})
		oidM := pat.Conv(pat.Concat(pat.Global("pcs.sgxTcbComponentOidPrefix"), pat.Pred(func(t *flow.Term) bool {
			return t.Contains(func(x *flow.Term) bool {
				return x.Op == flow.OpIter && inner != "" && strings.HasPrefix(x.Name, inner) && len(x.Args) == 2 && x.Args[0].IsConst("1") && x.Args[1].IsConst("1")
			})
		})))
		guard := pat.Call("(encoding/asn1.ObjectIdentifier).Equal", pat.Any(), oidM)
		bound := pat.Bin("<", pat.Is(idx), pat.Const(size))
		okGuard, okBound := false, false
		for _, gt := range a.Gates {
			if gt.Pred == nil {
				continue
			}
			if gt.Loop == "" && guard(gt.Pred, pat.Bind{}) {
				okGuard = true
			}
			if bound(gt.Pred, pat.Bind{}) || (gt.Dom != nil && bound(gt.Dom, pat.Bind{})) {
				okBound = true
			}
		}
		key := fmt.Sprintf("component-index#%d", ai)
		if isIter && okGuard && okBound && okOuter {
			r.OK("C13/TCB", key, env.P.Pos(st.Pos()), "component i stored at index i (found by the lookup helper) under Equal(OID, prefix||i+1); i runs over 0..15; every element visited")
		} else {
			r.Fail("C13/TCB", key, env.P.Pos(st.Pos()), fmt.Sprintf("component SVN i must be stored at index i (%v) under Equal(element OID, prefix||(i+1)) of the same i (%v), with i running over all 16 indices from 0 (%v) and every element visited (%v) — otherwise extraction depends on the order of the elements", isIter, okGuard, okBound, okOuter))
		}
	}
}
