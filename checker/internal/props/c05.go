package props

import (
	"fmt"

	"tdxlint/internal/flow"
	"tdxlint/internal/pat"
)

func init() { Registry["C05"] = C05; Registry["C06"] = C06 }

// collTerms are the provenance patterns of every collateral artifact on one alternative.
type collTerms struct {
	ok                             bool
	why                            string
	leaf, inter, root              pat.M // quote chain
	tSigner, tRoot, qSigner, qRoot pat.M // collateral issuer chains
	pSigner, pRoot                 pat.M // PCK CRL issuer chain
	pckCrl, rootCrl                pat.M
	tcbInfo, qeID                  *flow.Term
	respPck, respRootCrl           *flow.Term
}

func issuerChain(resp *flow.Term, phrase string) (signer, root pat.M) {
	return issuerChainM(pat.Is(resp), phrase)
}

func issuerChainM(resp pat.M, phrase string) (signer, root pat.M) {
	hdr := pat.Op(flow.OpLookup, "", pat.Res("0", resp), pat.Global(phrase))
	chain := pat.Conv(pat.Res("0", pat.Call("net/url.QueryUnescape", pat.Op(flow.OpIndex, "", pat.Res("0", hdr), pat.Const("0")))))
	return pemCert(chain, 0), pemCert(chain, 1)
}

func resolveColl(a *flow.Alt, q quoteTerms, needCrl bool) collTerms {
	var c collTerms
	chain := pat.Is(q.Chain)
	c.leaf, c.inter, c.root = pemCert(chain, 0), pemCert(chain, 1), pemCert(chain, 2)
	docs := collateralDocs(q)
	dt, why := resolveDoc(a, docs[0])
	if why != "" {
		c.why = "tcbInfo: " + why
		return c
	}
	dq, why := resolveDoc(a, docs[1])
	if why != "" {
		c.why = "qeIdentity: " + why
		return c
	}
	c.tcbInfo, c.qeID = dt.decRaw, dq.decRaw
	c.tSigner, c.tRoot = issuerChain(dt.resp, docs[0].phraseVar)
	c.qSigner, c.qRoot = issuerChain(dq.resp, docs[1].phraseVar)
	if needCrl {
		c.respPck = findTerm(a, pat.Invoke("Get", pat.Any(), pat.Call("pcs.PckCrlURL", pat.Any())))
		if c.respPck == nil {
			c.why = "no Getter.Get(pcs.PckCrlURL(...)) call"
			return c
		}
		// the CA argument of PckCrlURL is a per-path choice ("platform" /
		// "processor", decided by C12); the response is identified by its URL builder
		rp := pat.Invoke("Get", pat.Any(), pat.Call("pcs.PckCrlURL", pat.Any()))
		c.pSigner, c.pRoot = issuerChainM(rp, "pcs.SgxPckCrlIssuerChainPhrase")
		c.pckCrl = pat.Res("0", pat.Call("crypto/x509.ParseRevocationList", pat.Res("1", rp)))
		dp := pat.Op(flow.OpIndex, "", pat.Field(c.qRoot, "CRLDistributionPoints"), iterFrom(pat.Const("0"), nil))
		c.respRootCrl = findTerm(a, pat.Invoke("Get", pat.Any(), dp))
		if c.respRootCrl == nil {
			c.why = "no Getter.Get(<CRL distribution point of the QE-identity issuer root>) call"
			return c
		}
		c.rootCrl = pat.Res("0", pat.Call("crypto/x509.ParseRevocationList", pat.Res("1", pat.Is(c.respRootCrl))))
	}
	c.ok = true
	return c
}

func nameStr(x pat.M, f string) pat.M {
	return pat.Call("(crypto/x509/pkix.Name).String", pat.Field(x, f))
}

// crlAuthGates: validateCRL(crl, cert).
func crlAuthGates(rule, name string, crl, cert pat.M) []gateSpec {
	return []gateSpec{
		{rule: rule, name: name + ".present", m: pat.Bin("!=", crl, pat.Const("nil")), expect: name + ": CRL != nil"},
		{rule: rule, name: name + ".issuer-name", m: pat.Bin("==", nameStr(crl, "Issuer"), nameStr(cert, "Subject")), expect: name + ": CRL issuer name == signing certificate subject"},
		{rule: rule, name: name + ".signature", m: pat.Bin("==", pat.Call("(*crypto/x509.RevocationList).CheckSignatureFrom", crl, cert), pat.Const("nil")), expect: name + ": crl.CheckSignatureFrom(certificate) == nil"},
	}
}

// scanGate: forall i: cert.SerialNumber.Cmp(crl.RevokedCertificates[i].SerialNumber) != 0.
func scanGate(rule, name string, crl, cert pat.M, loop *string) gateSpec {
	el := pat.Field(pat.Op(flow.OpIndex, "", pat.Field(crl, "RevokedCertificates"), iterFrom(pat.Const("0"), loop)), "SerialNumber")
	ser := pat.Field(cert, "SerialNumber")
	cmp := pat.OneOf(pat.Call("(*math/big.Int).Cmp", ser, el), pat.Call("(*math/big.Int).Cmp", el, ser))
	return gateSpec{rule: rule, name: name, forall: true, m: pat.Bin("!=", cmp, pat.Const("0")),
		expect: name + ": for every entry of the CRL: certificate.SerialNumber.Cmp(entry.SerialNumber) != 0"}
}

// C05: revoked or unverifiable certificates are never accepted when revocation is on.
func C05(env *Env) {
	r := env.R
	r.Explanation = "With CheckRevocations and GetCollateral every accept path of verify.TdxQuote fetches and parses the PCK CRL (URL pcs.PckCrlURL) and the Root CA CRL (a CRL distribution point of the QE-identity issuer root), authenticates the Root CA CRL against the quote chain's root and both collateral issuer roots and the PCK CRL against the chain's intermediate (issuer name + signature), requires PCK CRL issuer == leaf issuer, and scans — with complete, break-free forall loops over RevokedCertificates — the Root CA CRL for the intermediate and both collateral signers and the PCK CRL for the leaf. With CheckRevocations but not GetCollateral there is no accept path at all."
	r.TrustedBase = []string{"crypto/x509 CRL parsing and signature checking, math/big.Int.Cmp", "go/ssa, go/types"}
	r.NotCovered = []string{"CRL parsing, serial-number arithmetic"}
	entry := env.fn("verify", "TdxQuote")
	if entry == nil {
		return
	}
	q := quoteOf(entry)
	for _, part := range verifyPartitions(entry) {
		if !part.cr {
			continue
		}
		e := env.engine(verifyAtoms...)
		for k, v := range part.assume {
			e.Assume[k] = v
		}
		alts := feasible(e.EntryPaths(entry, flow.ModeErr))
		for _, u := range e.Undecided {
			r.Undecided("C05/ENGINE", u, "", "engine could not model: "+u)
		}
		if !part.gc {
			if len(alts) == 0 {
				r.OK("C05/CONFLICT", "no-accept-path", env.P.Pos(entry.Pos()), "CheckRevocations without GetCollateral: no success alternative exists")
			} else {
				r.Fail("C05/CONFLICT", "no-accept-path", env.P.Pos(alts[0].Ret.Pos()), fmt.Sprintf("verification can succeed with CheckRevocations=true and GetCollateral=false (%d accept paths): revocation was requested but cannot have been checked", len(alts)))
			}
			continue
		}
		if len(alts) == 0 {
			r.Undecided("C05/PATHS", part.name, env.P.Pos(entry.Pos()), "no success alternative found for "+part.name)
			continue
		}
		for ai, a := range alts {
			pn := fmt.Sprintf("%s|alt%d", part.name, ai)
			c := resolveColl(a, q, true)
			if !c.ok {
				r.Fail("C05/FETCH", "crl-fetch|"+pn, env.P.Pos(a.Ret.Pos()), "accept path has "+c.why)
				continue
			}
			var specs []gateSpec
			specs = append(specs,
				gateSpec{rule: "FETCH", name: "pck-crl-get", m: pat.Bin("==", pat.Res("2", pat.Is(c.respPck)), pat.Const("nil")), expect: "Get(PckCrlURL) error == nil"},
				gateSpec{rule: "FETCH", name: "pck-crl-parse", m: pat.Bin("==", pat.Res("1", pat.Call("crypto/x509.ParseRevocationList", pat.Res("1", pat.Is(c.respPck)))), pat.Const("nil")), expect: "ParseRevocationList(PCK CRL body) error == nil"},
				gateSpec{rule: "FETCH", name: "root-crl-get", m: pat.Bin("==", pat.Res("2", pat.Is(c.respRootCrl)), pat.Const("nil")), expect: "Get(root CRL distribution point) error == nil"},
				gateSpec{rule: "FETCH", name: "root-crl-parse", m: pat.Bin("==", pat.Res("1", pat.Call("crypto/x509.ParseRevocationList", pat.Res("1", pat.Is(c.respRootCrl)))), pat.Const("nil")), expect: "ParseRevocationList(Root CA CRL body) error == nil"},
				gateSpec{rule: "FETCH", name: "root-crl-url-present", m: pat.NonEmpty(pat.Field(c.qRoot, "CRLDistributionPoints")), expect: "QE-identity issuer root has a CRL distribution point"},
			)
			specs = append(specs, crlAuthGates("AUTH", "rootCrl/chain-root", c.rootCrl, c.root)...)
			specs = append(specs, crlAuthGates("AUTH", "pckCrl/chain-intermediate", c.pckCrl, c.inter)...)
			specs = append(specs, crlAuthGates("AUTH", "rootCrl/tcbInfo-issuer-root", c.rootCrl, c.tRoot)...)
			specs = append(specs, crlAuthGates("AUTH", "rootCrl/qeIdentity-issuer-root", c.rootCrl, c.qRoot)...)
			specs = append(specs, gateSpec{rule: "AUTH", name: "pckCrl-issuer-is-leaf-issuer", m: pat.Bin("==", nameStr(c.pckCrl, "Issuer"), nameStr(c.leaf, "Issuer")), expect: "PCK CRL issuer name == leaf issuer name"})
			loops := make([]string, 4)
			scans := []gateSpec{
				scanGate("SCAN", "intermediate-in-rootCrl", c.rootCrl, c.inter, &loops[0]),
				scanGate("SCAN", "leaf-in-pckCrl", c.pckCrl, c.leaf, &loops[1]),
				scanGate("SCAN", "tcbInfo-signer-in-rootCrl", c.rootCrl, c.tSigner, &loops[2]),
				scanGate("SCAN", "qeIdentity-signer-in-rootCrl", c.rootCrl, c.qSigner, &loops[3]),
			}
			specs = append(specs, scans...)
			env.requireGates(e, []*flow.Alt{a}, pn, specs)
			// each scan covers the whole list and cannot be left early
			crls := []pat.M{c.rootCrl, c.pckCrl, c.rootCrl, c.rootCrl}
			for i, sc := range scans {
				for _, g := range a.Gates {
					if g.Loop == "" || !sc.m(g.Pred, pat.Bind{}) {
						continue
					}
					full := g.Dom != nil && pat.Bin("<", iterFrom(pat.Const("0"), nil), pat.Len(pat.Field(crls[i], "RevokedCertificates")))(g.Dom, pat.Bind{})
					if full && g.Complete {
						r.OK("C05/SCAN", sc.name+"-complete|"+pn, env.P.Pos(g.Pos), "scan runs over every entry and can only end at the end of the list or by rejecting")
					} else {
						r.Fail("C05/SCAN", sc.name+"-complete|"+pn, env.P.Pos(g.Pos), fmt.Sprintf("the revocation scan must visit every entry of RevokedCertificates (full range: %v, no early exit: %v)", full, g.Complete))
					}
					break
				}
			}
		}
	}
	// a configuration message cannot erase the conflict: RootOfTrustToOptions copies
	// check_crl / get_collateral into the options unchanged (C02's R4 rule)
	env.via("C02", func(s *Env) { s.c02RootOfTrust() })
	r.Floor("C05/FETCH", 5)
	r.Floor("C05/AUTH", 13)
	r.Floor("C05/SCAN", 8)
	r.Floor("C05/CONFLICT", 1)
}

// C06: nothing expired is accepted; each artifact is judged at its own configured time.
func C06(env *Env) {
	r := env.R
	r.Explanation = "Pairing table: on every accept path each time-bearing artifact (three chain certificates; nextUpdate and both issuer certificates of TCB Info and QE Identity; nextUpdate and both issuer certificates of the PCK CRL; nextUpdate of the Root CA CRL) has an enforced gate !options.Now.<its own field>.After(<artifact time>) in the partition that fetches it, no After-gate pairs an artifact with a foreign time field, the three x509 path validations run at the matching field, and the default time set assigns time.Now() to all five fields and is used only when options.Now is nil. Orientation (receiver = verification time, method After, true edge rejects) makes expiry monotone in the verification time."
	r.TrustedBase = []string{"time.Time.After, crypto/x509 validity arithmetic", "go/ssa, go/types"}
	r.NotCovered = []string{"boundary behaviour of time.Time.After and of x509's notBefore/notAfter comparison"}
	entry := env.fn("verify", "TdxQuote")
	if entry == nil {
		return
	}
	q := quoteOf(entry)
	opt := param(entry, 1)
	type pairing struct {
		field, name string
		artifact    pat.M
	}
	for _, part := range verifyPartitions(entry) {
		if part.cr && !part.gc {
			continue
		}
		e := env.engine(verifyAtoms...)
		for k, v := range part.assume {
			e.Assume[k] = v
		}
		alts := feasible(e.EntryPaths(entry, flow.ModeErr))
		for _, u := range e.Undecided {
			r.Undecided("C06/ENGINE", u, "", "engine could not model: "+u)
		}
		if len(alts) == 0 {
			r.Undecided("C06/PATHS", part.name, env.P.Pos(entry.Pos()), "no success alternative found for "+part.name)
			continue
		}
		for ai, a := range alts {
			pn := fmt.Sprintf("%s|alt%d", part.name, ai)
			chain := pat.Is(q.Chain)
			pairs := []pairing{
				{"PckCertChain", "chain-root.NotAfter", pat.Field(pemCert(chain, 2), "NotAfter")},
				{"PckCertChain", "chain-intermediate.NotAfter", pat.Field(pemCert(chain, 1), "NotAfter")},
				{"PckCertChain", "leaf.NotAfter", pat.Field(pemCert(chain, 0), "NotAfter")},
			}
			if part.gc {
				c := resolveColl(a, q, part.cr)
				if !c.ok {
					r.Fail("C06/PAIR", "collateral|"+pn, env.P.Pos(a.Ret.Pos()), "accept path has "+c.why)
					continue
				}
				pairs = append(pairs,
					pairing{"TcbInfo", "tcbInfo.nextUpdate", pat.Field(pat.Is(c.tcbInfo), "NextUpdate")},
					pairing{"TcbInfo", "tcbInfo-signer.NotAfter", pat.Field(c.tSigner, "NotAfter")},
					pairing{"TcbInfo", "tcbInfo-issuer-root.NotAfter", pat.Field(c.tRoot, "NotAfter")},
					pairing{"QeIdentity", "qeIdentity.nextUpdate", pat.Field(pat.Is(c.qeID), "NextUpdate")},
					pairing{"QeIdentity", "qeIdentity-signer.NotAfter", pat.Field(c.qSigner, "NotAfter")},
					pairing{"QeIdentity", "qeIdentity-issuer-root.NotAfter", pat.Field(c.qRoot, "NotAfter")},
				)
				if part.cr {
					pairs = append(pairs,
						pairing{"RootCaCrl", "rootCaCrl.nextUpdate", pat.Field(c.rootCrl, "NextUpdate")},
						pairing{"PckCrl", "pckCrl.nextUpdate", pat.Field(c.pckCrl, "NextUpdate")},
						pairing{"PckCrl", "pckCrl-signer.NotAfter", pat.Field(c.pSigner, "NotAfter")},
						pairing{"PckCrl", "pckCrl-issuer-root.NotAfter", pat.Field(c.pRoot, "NotAfter")},
					)
				}
			}
			var specs []gateSpec
			for _, p := range pairs {
				specs = append(specs, gateSpec{rule: "PAIR", name: p.name + "@" + p.field,
					m:      pat.Not(pat.Call("(time.Time).After", optTime(opt, p.field), p.artifact)),
					expect: fmt.Sprintf("!options.Now.%s.After(%s)", p.field, p.name)})
			}
			env.requireGates(e, []*flow.Alt{a}, pn, specs)
			// exactness: every gate that calls a time comparison is one of the pairings
			nTime := 0
			for _, g := range a.Gates {
				if !g.Pred.Contains(func(t *flow.Term) bool {
					return t.Op == flow.OpCall && (t.Name == "(time.Time).After" || t.Name == "(time.Time).Before" || t.Name == "(time.Time).Compare" || t.Name == "(time.Time).Equal")
				}) {
					continue
				}
				nTime++
				ok := false
				for _, sp := range specs {
					if sp.m(g.Pred, pat.Bind{}) {
						ok = true
						break
					}
				}
				if !ok {
					s := g.Pred.String()
					if len(s) > 500 {
						s = s[:500] + "…"
					}
					r.Fail("C06/EXACT", "time-gate|"+pn, env.P.Pos(g.Pos), "a time comparison on the accept path is not one of the stated (own time field, artifact) pairings with orientation !now.After(expiry): "+s)
				}
			}
			if nTime == len(specs) {
				r.OK("C06/EXACT", "time-gates|"+pn, env.P.Pos(a.Ret.Pos()), fmt.Sprintf("%d time gates, all stated pairings", nTime))
			} else if nTime < len(specs) {
				// missing ones were reported by requireGates
			}
			// x509 path validation times
			vt := func(cert pat.M, field string) pat.M {
				return pat.Bin("==", pat.Res("1", pat.Call("(*crypto/x509.Certificate).Verify", cert, func(t *flow.Term, b pat.Bind) bool {
					return pat.StructField("CurrentTime", optTime(opt, field))(flow.StripConv(t), b)
				})), pat.Const("nil"))
			}
			xs := []gateSpec{{rule: "X509TIME", name: "leaf.Verify@PckCertChain", m: vt(pemCert(chain, 0), "PckCertChain"), expect: "leaf.Verify at options.Now.PckCertChain"}}
			if part.gc {
				c := resolveColl(a, q, false)
				xs = append(xs,
					gateSpec{rule: "X509TIME", name: "tcbInfo-signer.Verify@TcbInfo", m: vt(c.tSigner, "TcbInfo"), expect: "TCB Info signer.Verify at options.Now.TcbInfo"},
					gateSpec{rule: "X509TIME", name: "qeIdentity-signer.Verify@QeIdentity", m: vt(c.qSigner, "QeIdentity"), expect: "QE Identity signer.Verify at options.Now.QeIdentity"})
			}
			env.requireGates(e, []*flow.Alt{a}, pn, xs)
		}
	}
	env.c06Default()
	r.Floor("C06/PAIR", 3+3+9+13)
	r.Floor("C06/X509TIME", 7)
	r.Floor("C06/EXACT", 3)
	r.Floor("C06/DEFAULT", 6)
}

// c06Default: the default time set is five time.Now() calls.
func (env *Env) c06Default() {
	r := env.R
	fn := env.fn("verify", "defaultTimeSet")
	if fn == nil {
		return
	}
	e := env.engine()
	alts := e.EntryPaths(fn, flow.ModeAll)
	if len(alts) != 1 {
		r.Undecided("C06/DEFAULT", "paths", env.P.Pos(fn.Pos()), "defaultTimeSet must have one return")
		return
	}
	o := e.Object(alts[0].Results[0], alts[0].Ctx)
	for _, f := range []string{"PckCertChain", "TcbInfo", "QeIdentity", "PckCrl", "RootCaCrl"} {
		if pat.StructField(f, pat.Call("time.Now"))(o, pat.Bind{}) {
			r.OK("C06/DEFAULT", f, env.P.Pos(fn.Pos()), "default "+f+" = time.Now()")
		} else {
			r.Fail("C06/DEFAULT", f, env.P.Pos(fn.Pos()), "defaultTimeSet must set "+f+" to time.Now(); object is "+o.String())
		}
	}
	if o.Op == flow.OpStruct && len(o.Args) == 5 {
		r.OK("C06/DEFAULT", "five-fields", env.P.Pos(fn.Pos()), "TimeSet has exactly the five stated fields")
	} else {
		r.Fail("C06/DEFAULT", "five-fields", env.P.Pos(fn.Pos()), "TimeSet no longer has exactly five fields; the pairing table must be revisited")
	}
}
