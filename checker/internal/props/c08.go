package props

import (
	"fmt"
	"go/types"
	"strings"

	"golang.org/x/tools/go/ssa"

	"tdxlint/internal/flow"
	"tdxlint/internal/load"
	"tdxlint/internal/pat"
)

func init() { Registry["C08"] = C08; Registry["C14"] = C14 }

// normName folds the spelling differences between option, policy and ABI constant names.
func normName(s string) string {
	s = strings.ToLower(strings.ReplaceAll(s, "_", ""))
	return s
}

// combineElems returns the error terms aggregated into the error that fn
// returns on its single non-failing return: the operands of multierr.Combine
// and of chains of multierr.Append (in any nesting, also accumulated by a loop
// over a literal table, which the engine unrolls), flattened in order.
func (env *Env) combineElems(e *flow.Engine, fn *ssa.Function) ([]*flow.Term, ssa.Instruction) {
	var found *ssa.Return
	for _, b := range fn.Blocks {
		ret, ok := b.Instrs[len(b.Instrs)-1].(*ssa.Return)
		if !ok || e.RetIsFail(ret) {
			continue
		}
		if found != nil {
			return nil, nil
		}
		found = ret
	}
	if found == nil || len(found.Results) == 0 {
		return nil, nil
	}
	t := e.Eval(found.Results[len(found.Results)-1], e.Root(fn))
	var flat func(t *flow.Term) ([]*flow.Term, bool)
	flat = func(t *flow.Term) ([]*flow.Term, bool) {
		t = flow.StripConv(t)
		switch {
		case t.IsConst("nil"):
			return nil, true
		case t.Op == flow.OpCall && t.Name == "go.uber.org/multierr.Combine" && len(t.Args) == 1:
			els, ok := flow.SeqElems(t.Args[0])
			if !ok {
				if flow.StripConv(t.Args[0]).IsConst("nil") {
					return nil, true
				}
				return nil, false
			}
			var out []*flow.Term
			for _, el := range els {
				sub, ok := flat(el)
				if !ok {
					return nil, false
				}
				out = append(out, sub...)
			}
			return out, true
		case t.Op == flow.OpCall && t.Name == "go.uber.org/multierr.Append" && len(t.Args) == 2:
			a, ok1 := flat(t.Args[0])
			b, ok2 := flat(t.Args[1])
			return append(a, b...), ok1 && ok2
		case t.Op == flow.OpPhi || t.Op == flow.OpUnknown:
			return nil, false
		}
		return []*flow.Term{t}, true
	}
	ts, ok := flat(t)
	if !ok {
		return nil, nil
	}
	return ts, found
}

// byteFields lists the []byte / [][]byte fields of a struct type.
func byteFields(t types.Type) (single, multi []string) {
	st, ok := t.Underlying().(*types.Struct)
	if !ok {
		return
	}
	for i := 0; i < st.NumFields(); i++ {
		f := st.Field(i)
		if sl, ok := f.Type().Underlying().(*types.Slice); ok {
			if b, ok := sl.Elem().Underlying().(*types.Basic); ok && b.Kind() == types.Byte {
				single = append(single, f.Name())
			} else if sl2, ok := sl.Elem().Underlying().(*types.Slice); ok {
				if b, ok := sl2.Elem().Underlying().(*types.Basic); ok && b.Kind() == types.Byte {
					multi = append(multi, f.Name())
				}
			}
		}
	}
	return
}

// abiSize finds the exported abi constant <Name>Size matching an option field name.
func (env *Env) abiSize(field string) (string, string) {
	sp := env.P.SSA[load.RepoPath("abi")]
	if sp == nil {
		return "", ""
	}
	want := normName(field) + "size"
	for _, name := range sp.Pkg.Scope().Names() {
		if c, ok := sp.Pkg.Scope().Lookup(name).(*types.Const); ok && c.Exported() && normName(name) == want {
			return name, c.Val().ExactString()
		}
	}
	return "", ""
}

// C08: policy validation accepts exactly the quotes that meet every stated expectation.
func C08(env *Env) {
	r := env.R
	r.Explanation = "Layered (compositional) decision over package validate. Leaf contracts: byteCheck succeeds only with len(required) == 0 or (len(required) == size and bytes.Equal(required, given)); byteCheckRtmr with no RTMRs or exactly four, each passing byteCheck against the quote RTMR of the same index; byteCheckAny with an empty list or some entry passing byteCheck; isSvnHigherOrEqual component-wise over the whole quote vector; the two mask checks (value & fixed1 == fixed1, value & ^fixed0 == 0 on the little-endian 64-bit value, 8-byte size gate). Wiring: exactByteMatch returns multierr.Combine of one call per option field, each pairing the same-named quote field and abi size constant (exhaustive over the option struct's byte-string fields); minVersionCheck compares LE16(QE SVN)/LE16(PCE SVN)/TEE_TCB_SVN with their own minimums with 'quote < minimum rejects'; tdxQuoteV4 enforces abi.CheckQuoteV4 first and returns Combine of the four groups with the mask constants in (fixed1, fixed0) order; TdxQuote/RawTdxQuote delegate. All results count because every check's error is an operand of a returned multierr.Combine."
	r.TrustedBase = []string{"bytes.Equal, encoding/binary, go.uber.org/multierr (Combine is nil iff all arguments are nil)", "go/ssa, go/types"}
	r.NotCovered = []string{"the numeric values of the four mask constants", "the 'exactly when' direction for honest inputs beyond gate shape"}
	env.c08ByteCheck()
	env.c08Rtmr()
	env.c08Any()
	env.c08ExactByteMatch()
	env.c08MinVersion()
	env.c08Masks()
	env.c08Top()
	// never crashes, for every options value (no precondition on option lengths)
	env.safetyOf("C08", "validate", "TdxQuote")
	env.safetyOf("C08", "validate", "RawTdxQuote", "validate.TdxQuote")
	if f := env.fn("validate", "TdxQuote"); f != nil {
		env.errorsNotLost("C08/ERRFLOW", inPackages(env.calleesBelow(f), "validate"))
	}
	r.Floor("C08/ERRFLOW", 5)
	r.Floor("C08/B1", 10)
	r.Floor("C08/B2", 10)
	r.Floor("C08/LEAF", 3)
	r.Floor("C08/WIRE", 11)
	r.Floor("C08/MIN", 3)
	r.Floor("C08/MASK", 6)
	r.Floor("C08/TOP", 7)
}

func eqBytes(x, y pat.M) pat.M {
	return pat.OneOf(pat.Call("bytes.Equal", x, y), pat.Call("bytes.Equal", y, x))
}

func (env *Env) c08ByteCheck() {
	r := env.R
	fn := env.fn("validate", "byteCheck")
	if fn == nil {
		return
	}
	e := env.engine()
	size, given, req := pat.Is(param(fn, 2)), pat.Is(param(fn, 3)), pat.Is(param(fn, 4))
	alts := e.EntryPaths(fn, flow.ModeErr)
	nSkip, nCmp := 0, 0
	for _, a := range alts {
		has := func(m pat.M) bool { return hasGateAny(a, m) != nil }
		switch {
		case has(pat.Empty(req)):
			nSkip++
		case has(pat.Bin("==", pat.Len(req), size)) && has(eqBytes(req, given)):
			nCmp++
		default:
			r.Fail("C08/LEAF", "byteCheck", env.P.Pos(a.Ret.Pos()), "byteCheck can succeed although the expectation is configured and neither skipped (len(required) == 0) nor fully compared (len(required) == size and bytes.Equal(required, given))")
			return
		}
	}
	if nSkip >= 1 && nCmp >= 1 {
		r.OK("C08/LEAF", "byteCheck", env.P.Pos(fn.Pos()), fmt.Sprintf("success only by skip-when-empty (%d path) or size + bytes.Equal (%d path)", nSkip, nCmp))
	} else {
		r.Fail("C08/LEAF", "byteCheck", env.P.Pos(fn.Pos()), fmt.Sprintf("byteCheck must have a skip path and a comparing path (found %d / %d)", nSkip, nCmp))
	}
}

func (env *Env) c08Rtmr() {
	r := env.R
	fn := env.fn("validate", "byteCheckRtmr")
	if fn == nil {
		return
	}
	e := env.engine("validate.byteCheck")
	size, given, req := pat.Is(param(fn, 0)), pat.Is(param(fn, 1)), pat.Is(param(fn, 2))
	alts := e.EntryPaths(fn, flow.ModeErr)
	nSkip, nCmp := 0, 0
	for _, a := range alts {
		if hasGateAny(a, pat.Empty(req)) != nil {
			nSkip++
			continue
		}
		var loop string
		it := iterFrom(pat.Const("0"), &loop)
		each := pat.Bin("==", pat.Call("validate.byteCheck", pat.Any(), pat.Any(), size, pat.Op(flow.OpIndex, "", given, it), pat.Op(flow.OpIndex, "", req, it)), pat.Const("nil"))
		g := hasGate(a, func(t *flow.Term) bool { return each(t, pat.Bind{}) }, true)
		four := hasGateAny(a, pat.Bin("==", pat.Len(req), pat.Const(env.repoConst("validate", "rtmrsCount")))) != nil
		full := g != nil && g.Complete && g.Dom != nil && pat.Bin("<", iterFrom(pat.Const("0"), nil), pat.Len(req))(g.Dom, pat.Bind{})
		if g != nil && four && full {
			nCmp++
		} else {
			r.Fail("C08/LEAF", "byteCheckRtmr", env.P.Pos(a.Ret.Pos()), fmt.Sprintf("with RTMR expectations given, success requires exactly four of them (%v) and, for every index i, byteCheck(size, given[i], required[i]) == nil over the whole list (%v)", four, full))
			return
		}
	}
	if nSkip >= 1 && nCmp >= 1 {
		r.OK("C08/LEAF", "byteCheckRtmr", env.P.Pos(fn.Pos()), "skip when none given; otherwise exactly four, index-paired, all compared")
	} else {
		r.Fail("C08/LEAF", "byteCheckRtmr", env.P.Pos(fn.Pos()), "byteCheckRtmr must have a skip path and a comparing path")
	}
}

func (env *Env) c08Any() {
	r := env.R
	fn := env.fn("validate", "byteCheckAny")
	if fn == nil {
		return
	}
	e := env.engine("validate.byteCheck")
	size, given, allowed := pat.Is(param(fn, 0)), pat.Is(param(fn, 1)), pat.Is(param(fn, 2))
	alts := e.EntryPaths(fn, flow.ModeErr)
	nSkip, nHit := 0, 0
	for _, a := range alts {
		if hasGateAny(a, pat.Empty(allowed)) != nil {
			nSkip++
			continue
		}
		hit := pat.Bin("==", pat.Call("validate.byteCheck", pat.Any(), pat.Any(), size, given, pat.Op(flow.OpIndex, "", allowed, iterFrom(pat.Const("0"), nil))), pat.Const("nil"))
		if hasGateAny(a, hit) != nil {
			nHit++
		} else {
			r.Fail("C08/LEAF", "byteCheckAny", env.P.Pos(a.Ret.Pos()), "with an allowed set given, success requires some entry allowed[i] with byteCheck(size, given, allowed[i]) == nil")
			return
		}
	}
	if nSkip >= 1 && nHit >= 1 {
		r.OK("C08/LEAF", "byteCheckAny", env.P.Pos(fn.Pos()), "skip when empty; otherwise membership by byteCheck")
	} else {
		r.Fail("C08/LEAF", "byteCheckAny", env.P.Pos(fn.Pos()), "byteCheckAny must have a skip path and a membership path")
	}
}

// quoteFieldFor maps an option field name to the quote field term.
func quoteFieldFor(q *flow.Term, optField string) (pat.M, string) {
	body := map[string]string{"mrseam": "MrSeam", "tdattributes": "TdAttributes", "xfam": "Xfam", "mrtd": "MrTd", "mrconfigid": "MrConfigId", "mrowner": "MrOwner", "mrownerconfig": "MrOwnerConfig", "reportdata": "ReportData", "rtmrs": "Rtmrs", "anymrtd": "MrTd", "minimumteetcbsvn": "TeeTcbSvn"}
	hdr := map[string]string{"qevendorid": "QeVendorId", "minimumqesvn": "QeSvn", "minimumpcesvn": "PceSvn"}
	n := normName(optField)
	if f, ok := body[n]; ok {
		return pat.Is(fieldT(q, "TdQuoteBody", f)), "TdQuoteBody." + f
	}
	if f, ok := hdr[n]; ok {
		return pat.Is(fieldT(q, "Header", f)), "Header." + f
	}
	return nil, ""
}

func (env *Env) c08ExactByteMatch() {
	r := env.R
	fn := env.fn("validate", "exactByteMatch")
	if fn == nil {
		return
	}
	e := env.engine("validate.byteCheck", "validate.byteCheckRtmr", "validate.byteCheckAny")
	q, opts := param(fn, 0), param(fn, 1)
	elems, call := env.combineElems(e, fn)
	if call == nil {
		r.Undecided("C08/WIRE", "combine", env.P.Pos(fn.Pos()), "exactByteMatch no longer returns a single multierr.Combine of its checks: the wiring rule cannot be decided")
		return
	}
	sp := env.P.SSA[load.RepoPath("validate")]
	for _, grp := range []string{"HeaderOptions", "TdQuoteBodyOptions"} {
		single, multi := byteFields(sp.Type(grp).Type())
		for _, f := range append(append([]string{}, single...), multi...) {
			if normName(f) == "minimumteetcbsvn" {
				continue // minimum, not exact match (rule MIN)
			}
			qf, qname := quoteFieldFor(q, f)
			sizeField := f
			if normName(f) == "anymrtd" {
				sizeField = "MrTd"
			}
			if normName(f) == "rtmrs" {
				sizeField = "Rtmr"
			}
			cname, cval := env.abiSize(sizeField)
			if qf == nil || cname == "" {
				r.Undecided("C08/WIRE", f, env.P.Pos(fn.Pos()), "no quote field / abi size constant known for option "+f)
				continue
			}
			optT := pat.Is(fieldT(opts, grp, f))
			var m pat.M
			switch normName(f) {
			case "rtmrs":
				m = pat.Call("validate.byteCheckRtmr", pat.Const(cval), qf, optT)
			case "anymrtd":
				m = pat.Call("validate.byteCheckAny", pat.Const(cval), qf, optT)
			default:
				m = pat.Call("validate.byteCheck", pat.Any(), pat.Any(), pat.Const(cval), qf, optT)
			}
			found := false
			for _, el := range elems {
				if m(el, pat.Bind{}) {
					found = true
				}
			}
			if found {
				r.OK("C08/WIRE", f, env.P.Pos(call.Pos()), fmt.Sprintf("option %s.%s checked against quote %s with abi.%s", grp, f, qname, cname))
			} else {
				r.Fail("C08/WIRE", f, env.P.Pos(call.Pos()), fmt.Sprintf("no operand of the returned multierr.Combine checks option %s.%s against quote %s with size abi.%s (=%s): the expectation is not (or wrongly) enforced", grp, f, qname, cname, cval))
			}
		}
	}
}

func (env *Env) c08MinVersion() {
	r := env.R
	fn := env.fn("validate", "minVersionCheck")
	if fn == nil {
		return
	}
	e := env.engine()
	q, opts := param(fn, 0), param(fn, 1)
	le16 := func(x pat.M) pat.M {
		return pat.Call("(encoding/binary.littleEndian).Uint16", pat.Global("encoding/binary.LittleEndian"), x)
	}
	alts := e.EntryPaths(fn, flow.ModeErr)
	if len(alts) == 0 {
		r.Undecided("C08/MIN", "paths", env.P.Pos(fn.Pos()), "no success alternative")
		return
	}
	env.requireGates(e, alts, "", []gateSpec{
		{rule: "MIN", name: "qe-svn", m: pat.Bin("<=", pat.Is(fieldT(opts, "HeaderOptions", "MinimumQeSvn")), le16(pat.Is(fieldT(q, "Header", "QeSvn")))), expect: "LE16(quote QE SVN) >= options.MinimumQeSvn"},
		{rule: "MIN", name: "pce-svn", m: pat.Bin("<=", pat.Is(fieldT(opts, "HeaderOptions", "MinimumPceSvn")), le16(pat.Is(fieldT(q, "Header", "PceSvn")))), expect: "LE16(quote PCE SVN) >= options.MinimumPceSvn"},
	})
	tee := pat.Is(fieldT(q, "TdQuoteBody", "TeeTcbSvn"))
	min := pat.Is(fieldT(opts, "TdQuoteBodyOptions", "MinimumTeeTcbSvn"))
	okAll := true
	for _, a := range alts {
		if hasGateAny(a, pat.Empty(min)) != nil {
			continue
		}
		var loop string
		it := iterFrom(pat.Const("0"), &loop)
		g := hasGate(a, func(t *flow.Term) bool {
			return pat.Bin("<=", pat.Op(flow.OpIndex, "", min, it), pat.Op(flow.OpIndex, "", tee, it))(t, pat.Bind{})
		}, true)
		full := g != nil && g.Complete && g.Dom != nil && pat.Bin("<", iterFrom(pat.Const("0"), nil), pat.Len(tee))(g.Dom, pat.Bind{})
		if !full {
			okAll = false
			r.Fail("C08/MIN", "tee-tcb-svn", env.P.Pos(a.Ret.Pos()), "with a TEE_TCB_SVN minimum given, success requires quote[i] >= minimum[i] for every component i of the quote's vector (component-wise, whole vector)")
			break
		}
	}
	if okAll {
		r.OK("C08/MIN", "tee-tcb-svn", env.P.Pos(fn.Pos()), "component-wise over the whole vector, or no minimum given")
	}
}

func (env *Env) c08Masks() {
	r := env.R
	for _, name := range []string{"validateXfam", "validateTdAttributes"} {
		fn := env.fn("validate", name)
		if fn == nil {
			continue
		}
		e := env.engine()
		v, f1, f0 := pat.Is(param(fn, 0)), pat.Is(param(fn, 1)), pat.Is(param(fn, 2))
		val := pat.Call("(encoding/binary.littleEndian).Uint64", pat.Global("encoding/binary.LittleEndian"), v)
		alts := e.EntryPaths(fn, flow.ModeErr)
		ok := len(alts) > 0
		nChk := 0
		for _, a := range alts {
			if hasGateAny(a, pat.Empty(v)) != nil {
				continue
			}
			nChk++
			has := func(m pat.M) bool { return hasGateAny(a, m) != nil }
			c1 := has(pat.Bin("==", pat.Len(v), pat.Const("8")))
			// value & fixed1 == fixed1, or the same as "no fixed-1 bit is missing": fixed1 &^ value == 0
			c2 := has(pat.OneOf(pat.Bin("==", pat.Bin("&", val, f1), f1), pat.Bin("==", pat.Bin("&^", f1, val), pat.Const("0")), pat.Bin("==", pat.Bin("&", f1, pat.Op(flow.OpUn, "^", val)), pat.Const("0"))))
			// value & ^fixed0 == 0, also spelled value &^ fixed0 == 0
			c3 := has(pat.OneOf(pat.Bin("==", pat.Bin("&", val, pat.Op(flow.OpUn, "^", f0)), pat.Const("0")), pat.Bin("==", pat.Bin("&^", val, f0), pat.Const("0"))))
			if !(c1 && c2 && c3) {
				ok = false
				r.Fail("C08/MASK", name, env.P.Pos(a.Ret.Pos()), fmt.Sprintf("%s must require size 8 (%v), value & fixed1 == fixed1 (%v) and value & ^fixed0 == 0 (%v) on the little-endian 64-bit value", name, c1, c2, c3))
			}
		}
		if ok && nChk > 0 {
			r.OK("C08/MASK", name, env.P.Pos(fn.Pos()), "size gate, fixed-1 bits required, bits outside fixed-0 forbidden")
			r.OK("C08/MASK", name+"#fixed1", env.P.Pos(fn.Pos()), "value & fixed1 == fixed1")
			r.OK("C08/MASK", name+"#fixed0", env.P.Pos(fn.Pos()), "value & ^fixed0 == 0")
		}
	}
}

func (env *Env) c08Top() {
	r := env.R
	fn := env.fn("validate", "tdxQuoteV4")
	if fn == nil {
		return
	}
	e := env.engine("abi.CheckQuoteV4", "validate.exactByteMatch", "validate.minVersionCheck", "validate.validateXfam", "validate.validateTdAttributes")
	q, opts := param(fn, 0), param(fn, 1)
	alts := e.EntryPaths(fn, flow.ModeErr)
	c := func(name string) string { return env.repoConst("validate", name) }
	env.requireGates(e, alts, "", []gateSpec{
		{rule: "TOP", name: "CheckQuoteV4", m: pat.Bin("==", pat.Call("abi.CheckQuoteV4", pat.Is(q)), pat.Const("nil")), expect: "abi.CheckQuoteV4(quote) == nil"},
		{rule: "TOP", name: "exactByteMatch", m: pat.Bin("==", pat.Call("validate.exactByteMatch", pat.Is(q), pat.Is(opts)), pat.Const("nil")), expect: "exactByteMatch(quote, options) == nil"},
		{rule: "TOP", name: "minVersionCheck", m: pat.Bin("==", pat.Call("validate.minVersionCheck", pat.Is(q), pat.Is(opts)), pat.Const("nil")), expect: "minVersionCheck(quote, options) == nil"},
		{rule: "TOP", name: "validateXfam", m: pat.Bin("==", pat.Call("validate.validateXfam", pat.Is(fieldT(q, "TdQuoteBody", "Xfam")), pat.Const(c("xfamFixed1")), pat.Const(c("xfamFixed0"))), pat.Const("nil")), expect: "validateXfam(quote XFAM, xfamFixed1, xfamFixed0) == nil"},
		{rule: "TOP", name: "validateTdAttributes", m: pat.Bin("==", pat.Call("validate.validateTdAttributes", pat.Is(fieldT(q, "TdQuoteBody", "TdAttributes")), pat.Const(c("tdAttributesFixed1")), pat.Const(c("tdAttributesFixed0"))), pat.Const("nil")), expect: "validateTdAttributes(quote TD_ATTRIBUTES, tdAttributesFixed1, tdAttributesFixed0) == nil"},
	})
	// CheckQuoteV4 first: it dominates the other calls
	var chk *ssa.Call
	for _, b := range fn.Blocks {
		for _, in := range b.Instrs {
			if cl, ok := in.(*ssa.Call); ok && cl.Call.StaticCallee() != nil && load.FuncName(cl.Call.StaticCallee()) == "abi.CheckQuoteV4" {
				chk = cl
			}
		}
	}
	first := chk != nil
	for _, b := range fn.Blocks {
		for _, in := range b.Instrs {
			if cl, ok := in.(*ssa.Call); ok && cl != chk && cl.Call.StaticCallee() != nil && strings.HasPrefix(load.FuncName(cl.Call.StaticCallee()), "validate.") {
				if chk == nil || !dominatesInstr(chk, cl) {
					first = false
				}
			}
		}
	}
	if first {
		r.OK("C08/TOP", "precheck-first", env.P.Pos(chk.Pos()), "abi.CheckQuoteV4 runs before any field is compared")
	} else {
		r.Fail("C08/TOP", "precheck-first", env.P.Pos(fn.Pos()), "abi.CheckQuoteV4 must run before the field checks")
	}
	// TdxQuote / RawTdxQuote delegate
	if top := env.fn("validate", "TdxQuote"); top != nil {
		e2 := env.engine("validate.tdxQuoteV4")
		alts := e2.EntryPaths(top, flow.ModeErr)
		ok := len(alts) > 0
		for _, a := range alts {
			last := a.Results[len(a.Results)-1]
			if !pat.Call("validate.tdxQuoteV4", pat.Is(param(top, 0)), pat.Is(param(top, 1)))(last, pat.Bind{}) {
				ok = false
			}
		}
		if ok {
			r.OK("C08/TOP", "TdxQuote-delegates", env.P.Pos(top.Pos()), "succeeds only as tdxQuoteV4(quote, options)")
		} else {
			r.Fail("C08/TOP", "TdxQuote-delegates", env.P.Pos(top.Pos()), "validate.TdxQuote must succeed only through tdxQuoteV4(quote, options)")
		}
	}
	if raw := env.fn("validate", "RawTdxQuote"); raw != nil {
		e2 := env.engine("abi.QuoteToProto", "validate.TdxQuote")
		alts := e2.EntryPaths(raw, flow.ModeErr)
		ok := len(alts) > 0
		parsed := pat.Res("0", pat.Call("abi.QuoteToProto", pat.Is(param(raw, 0))))
		for _, a := range alts {
			last := a.Results[len(a.Results)-1]
			if !pat.Call("validate.TdxQuote", parsed, pat.Is(param(raw, 1)))(last, pat.Bind{}) {
				ok = false
			}
		}
		if ok {
			r.OK("C08/TOP", "RawTdxQuote-delegates", env.P.Pos(raw.Pos()), "succeeds only as TdxQuote(QuoteToProto(raw), options)")
		} else {
			r.Fail("C08/TOP", "RawTdxQuote-delegates", env.P.Pos(raw.Pos()), "validate.RawTdxQuote must succeed only through TdxQuote(abi.QuoteToProto(raw), options)")
		}
	}
}

// C14: a policy message means the same after conversion to validation options.
func C14(env *Env) {
	c14Own(env)
	// "a policy that converts can neither crash validation nor be partly ignored":
	// the validation side is decided by C08's rules
	env.via("C08", C08)
}

func c14Own(env *Env) {
	r := env.R
	r.Explanation = "PolicyToOptions: every field of validate.HeaderOptions / TdQuoteBodyOptions of the returned object is the same-named field of the policy message (name-normalised bijection, also exhaustive over the policy messages' fields), the two 16-bit minimums behind 'policy value <= 65535' gates, and checkOptionsLengths(opts) == nil enforced before success. checkOptionsLengths returns multierr.Combine of one lengthCheck / lengthCheckMany per byte-string option field (exhaustive over the option structs), each with the abi size constant of the same name — the same constants abi.CheckQuoteV4 and validation use. lengthCheck succeeds only for nil or exact length; lengthCheckMany for an empty list, or entries each empty or of exact length (and, for RTMRs, exactly four)."
	r.TrustedBase = []string{"generated protobuf getters (shape verified), go.uber.org/multierr", "go/ssa, go/types"}
	r.NotCovered = []string{"validation verdict equality on concrete inputs (C08 decides the validation side structurally)"}
	fn := env.fn("validate", "PolicyToOptions")
	if fn == nil {
		return
	}
	e := env.engine("validate.checkOptionsLengths")
	pol := param(fn, 0)
	alts := e.EntryPaths(fn, flow.ModeErr)
	if len(alts) == 0 {
		r.Undecided("C14/MAP", "paths", env.P.Pos(fn.Pos()), "no success alternative")
		return
	}
	hp, bp := fieldT(pol, "HeaderPolicy"), fieldT(pol, "TdQuoteBodyPolicy")
	env.requireGates(e, alts, "", []gateSpec{
		{rule: "RANGE", name: "minimum_qe_svn", m: pat.Bin("<=", pat.Is(fieldT(hp, "MinimumQeSvn")), pat.Const("65535")), expect: "policy.HeaderPolicy.MinimumQeSvn <= 65535"},
		{rule: "RANGE", name: "minimum_pce_svn", m: pat.Bin("<=", pat.Is(fieldT(hp, "MinimumPceSvn")), pat.Const("65535")), expect: "policy.HeaderPolicy.MinimumPceSvn <= 65535"},
	})
	sp := env.P.SSA[load.RepoPath("validate")]
	cc := env.P.SSA[load.RepoPath("proto/checkconfig")]
	for _, a := range alts {
		o := e.Object(a.Results[0], a.Ctx)
		if o.Op != flow.OpStruct {
			r.Undecided("C14/MAP", "result", env.P.Pos(a.Ret.Pos()), "PolicyToOptions does not return a freshly built Options: "+o.String())
			continue
		}
		// length check enforced on this very object
		lc := pat.Bin("==", pat.Call("validate.checkOptionsLengths", pat.Is(a.Results[0])), pat.Const("nil"))
		if hasGateAny(a, lc) != nil {
			r.OK("C14/LEN", "checkOptionsLengths-enforced", env.P.Pos(a.Ret.Pos()), "checkOptionsLengths(returned options) == nil")
		} else {
			r.Fail("C14/LEN", "checkOptionsLengths-enforced", env.P.Pos(a.Ret.Pos()), "PolicyToOptions can succeed without checkOptionsLengths having accepted the returned options")
		}
		used := map[string]bool{}
		for _, grp := range []struct {
			opt, polT string
			base      *flow.Term
		}{{"HeaderOptions", "HeaderPolicy", hp}, {"TdQuoteBodyOptions", "TDQuoteBodyPolicy", bp}} {
			st := sp.Type(grp.opt).Type().Underlying().(*types.Struct)
			var sub *flow.Term
			for _, fi := range o.Args {
				if fi.Name == grp.opt {
					sub = flow.StripConv(fi.Args[0])
				}
			}
			if sub == nil || sub.Op != flow.OpStruct {
				r.Fail("C14/MAP", grp.opt, env.P.Pos(a.Ret.Pos()), "returned options have no "+grp.opt)
				continue
			}
			// policy message fields by normalised name
			pst := cc.Type(grp.polT).Type().Underlying().(*types.Struct)
			polFields := map[string]string{}
			for i := 0; i < pst.NumFields(); i++ {
				if pst.Field(i).Exported() {
					polFields[normName(pst.Field(i).Name())] = pst.Field(i).Name()
				}
			}
			for i := 0; i < st.NumFields(); i++ {
				f := st.Field(i).Name()
				pf, ok := polFields[normName(f)]
				if !ok {
					r.Fail("C14/MAP", grp.opt+"."+f, env.P.Pos(a.Ret.Pos()), "option field "+f+" has no same-named policy field")
					continue
				}
				used[grp.polT+"."+pf] = true
				var got *flow.Term
				for _, fi := range sub.Args {
					if fi.Name == f {
						got = fi.Args[0]
					}
				}
				want := pat.Conv(pat.Is(fieldT(grp.base, pf)))
				if got != nil && want(got, pat.Bind{}) {
					r.OK("C14/MAP", grp.opt+"."+f, env.P.Pos(a.Ret.Pos()), "= policy."+grp.polT+"."+pf)
				} else {
					r.Fail("C14/MAP", grp.opt+"."+f, env.P.Pos(a.Ret.Pos()), fmt.Sprintf("option %s.%s must be the policy's %s.%s; is %s", grp.opt, f, grp.polT, pf, got))
				}
			}
			for n, pf := range polFields {
				if !used[grp.polT+"."+pf] {
					r.Fail("C14/MAP", grp.polT+"."+pf+"#unused", env.P.Pos(a.Ret.Pos()), "policy field "+pf+" ("+n+") is not converted into any option: that part of the policy is ignored")
				}
			}
		}
	}
	env.c14Lengths()
	r.Floor("C14/RANGE", 2)
	r.Floor("C14/MAP", 14)
	r.Floor("C14/LEN", 1+12+2)
}

func (env *Env) c14Lengths() {
	r := env.R
	fn := env.fn("validate", "checkOptionsLengths")
	if fn == nil {
		return
	}
	e := env.engine("validate.lengthCheck", "validate.lengthCheckMany")
	opts := param(fn, 0)
	elems, call := env.combineElems(e, fn)
	if call == nil {
		r.Undecided("C14/LEN", "combine", env.P.Pos(fn.Pos()), "checkOptionsLengths no longer returns a single multierr.Combine of one length check per option: the exhaustiveness rule cannot be decided")
		return
	}
	sp := env.P.SSA[load.RepoPath("validate")]
	for _, grp := range []string{"HeaderOptions", "TdQuoteBodyOptions"} {
		single, multi := byteFields(sp.Type(grp).Type())
		for _, f := range single {
			sizeField := f
			if normName(f) == "minimumteetcbsvn" {
				sizeField = "TeeTcbSvn"
			}
			cname, cval := env.abiSize(sizeField)
			m := pat.Call("validate.lengthCheck", pat.Any(), pat.Const(cval), pat.Is(fieldT(opts, grp, f)))
			found := false
			for _, el := range elems {
				if cname != "" && m(el, pat.Bind{}) {
					found = true
				}
			}
			if found {
				r.OK("C14/LEN", f, env.P.Pos(call.Pos()), "lengthCheck(abi."+cname+", options."+grp+"."+f+")")
			} else {
				r.Fail("C14/LEN", f, env.P.Pos(call.Pos()), fmt.Sprintf("byte-string option %s.%s is not length-checked with abi.%s (=%s) in checkOptionsLengths: a wrongly sized policy value converts successfully", grp, f, cname, cval))
			}
		}
		for _, f := range multi {
			sizeField := "MrTd"
			wantConstraint := false
			if normName(f) == "rtmrs" {
				sizeField = "Rtmr"
				wantConstraint = true
			}
			cname, cval := env.abiSize(sizeField)
			found := false
			for _, el := range elems {
				el = flow.StripConv(el)
				if el.Op != flow.OpCall || el.Name != "validate.lengthCheckMany" || len(el.Args) != 4 {
					continue
				}
				if !flow.StripConv(el.Args[2]).IsConst(cval) || !flow.Eq(flow.StripConv(el.Args[3]), fieldT(opts, grp, f)) {
					continue
				}
				hasC := !flow.StripConv(el.Args[1]).IsConst("nil")
				if hasC == wantConstraint {
					found = true
				}
			}
			if found {
				r.OK("C14/LEN", f, env.P.Pos(call.Pos()), "lengthCheckMany(abi."+cname+", options."+grp+"."+f+")")
			} else {
				r.Fail("C14/LEN", f, env.P.Pos(call.Pos()), fmt.Sprintf("list option %s.%s is not length-checked with abi.%s (count constraint expected: %v)", grp, f, cname, wantConstraint))
			}
		}
	}
	// leaf contracts
	if lc := env.fn("validate", "lengthCheck"); lc != nil {
		ee := env.engine()
		length, value := pat.Is(param(lc, 1)), pat.Is(param(lc, 2))
		ok := true
		alts := ee.EntryPaths(lc, flow.ModeErr)
		imp := pat.Op("implies", "", pat.OneOf(pat.Bin("!=", value, pat.Const("nil")), pat.NonEmpty(value)), pat.Bin("==", pat.Len(value), length))
		for _, a := range alts {
			if hasGateAny(a, pat.Bin("==", value, pat.Const("nil"))) == nil && hasGateAny(a, pat.Bin("==", pat.Len(value), length)) == nil && hasGateAny(a, pat.Empty(value)) == nil && hasGateAny(a, imp) == nil {
				ok = false
			}
		}
		if ok && len(alts) >= 1 {
			r.OK("C14/LEN", "lengthCheck-contract", env.P.Pos(lc.Pos()), "succeeds only for an unset value or the exact length")
		} else {
			r.Fail("C14/LEN", "lengthCheck-contract", env.P.Pos(lc.Pos()), "lengthCheck must succeed only for an unset value or len(value) == length")
		}
	}
	if lm := env.fn("validate", "lengthCheckMany"); lm != nil {
		ee := env.engine()
		constraint, length, value := param(lm, 1), pat.Is(param(lm, 2)), pat.Is(param(lm, 3))
		alts := ee.EntryPaths(lm, flow.ModeErr)
		ok := len(alts) >= 2
		for _, a := range alts {
			if hasGateAny(a, pat.Empty(value)) != nil {
				continue
			}
			// every entry empty or exact
			g := hasGate(a, func(t *flow.Term) bool {
				el := pat.Len(pat.Op(flow.OpIndex, "", value, iterFrom(pat.Const("0"), nil)))
				return pat.Op("implies", "", pat.Bin("!=", el, pat.Const("0")), pat.Bin("==", el, length))(t, pat.Bind{}) ||
					pat.Bin("==", el, length)(t, pat.Bind{}) ||
					// the same as a predicate: empty, or (non-empty and) of the exact length
					pat.Bin("||", pat.Bin("==", el, pat.Const("0")), pat.OneOf(pat.Bin("==", el, length), pat.Bin("&&", pat.Bin("!=", el, pat.Const("0")), pat.Bin("==", el, length))))(t, pat.Bind{})
			}, true)
			okEntry := g != nil && g.Complete
			if !okEntry {
				okEntry = env.loopRejectsWrongLength(ee, lm)
			}
			// the constraint is applied when present
			okC := hasGateAny(a, pat.Bin("==", pat.Is(constraint), pat.Const("nil"))) != nil ||
				a.Gates != nil && gatesMention(a, "dynamic#") || hasGateAny(a, pat.Pred(func(t *flow.Term) bool { return strings.Contains(t.String(), constraint.String()) })) != nil
			if !okEntry || !okC {
				ok = false
			}
		}
		if ok {
			r.OK("C14/LEN", "lengthCheckMany-contract", env.P.Pos(lm.Pos()), "empty list, or count constraint applied and every entry empty or of the exact length")
		} else {
			r.Fail("C14/LEN", "lengthCheckMany-contract", env.P.Pos(lm.Pos()), "lengthCheckMany must apply the count constraint and reject any entry that is non-empty and of the wrong length")
		}
	}
}

func gatesMention(a *flow.Alt, s string) bool {
	for _, g := range a.Gates {
		if strings.Contains(g.Pred.String(), s) {
			return true
		}
	}
	return false
}

// loopRejectsWrongLength: structural fallback — in the function's single loop
// the reject edge is taken exactly on  len(v[i]) != 0 && len(v[i]) != length.
func (env *Env) loopRejectsWrongLength(e *flow.Engine, fn *ssa.Function) bool {
	g := e.GraphOf(fn, e.Root(fn))
	if len(g.Loops) != 1 {
		return false
	}
	l := g.Loops[0]
	value, length := pat.Is(param(fn, 3)), pat.Is(param(fn, 2))
	el := pat.Len(pat.Op(flow.OpIndex, "", value, iterFrom(pat.Const("0"), nil)))
	c1, c2 := false, false
	for b := range l.Body {
		blk := fn.Blocks[b]
		iff, ok := blk.Instrs[len(blk.Instrs)-1].(*ssa.If)
		if !ok {
			continue
		}
		t := e.Eval(iff.Cond, e.Root(fn))
		if pat.Bin("!=", el, pat.Const("0"))(t, pat.Bind{}) || pat.Bin("==", el, pat.Const("0"))(t, pat.Bind{}) {
			c1 = true
		}
		if pat.Bin("!=", el, length)(t, pat.Bind{}) || pat.Bin("==", el, length)(t, pat.Bind{}) {
			c2 = true
		}
	}
	// and the loop is complete (no break): every exit to a success return goes through the header
	for u := range l.Body {
		for _, v := range g.Succ[u] {
			if !l.Body[v] && u != l.Head {
				// exits from the body must be rejects
				blk := fn.Blocks[v]
				ret, ok := blk.Instrs[len(blk.Instrs)-1].(*ssa.Return)
				if !ok || !e.RetIsFail(ret) {
					return false
				}
			}
		}
	}
	return c1 && c2
}
