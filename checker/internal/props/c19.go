package props

import (
	"fmt"
	"go/constant"
	"go/token"
	"go/types"
	"strings"

	"golang.org/x/tools/go/ssa"

	"tdxlint/internal/flow"
	"tdxlint/internal/load"
	"tdxlint/internal/pat"
)

func init() { Registry["C19"] = C19 }

const checkPkg = "tools/check"

var c19Atoms = []string{"verify.TdxQuote", "validate.TdxQuote", "verify.RootOfTrustToOptions", "validate.PolicyToOptions",
	checkPkg + ".parseConfig", checkPkg + ".populateRootOfTrust", checkPkg + ".populateConfig", checkPkg + ".readQuote"}

// fromConfig matches a term derived from the tool's config variable selecting field path.
func fromConfig(fields ...string) pat.M {
	return func(t *flow.Term, b pat.Bind) bool {
		t = flow.StripConv(t)
		alts := []*flow.Term{t}
		if t.Op == flow.OpPhi {
			alts = t.Args
		}
		found := false
		for _, a := range alts {
			if pat.Field(pat.Global(checkPkg+".config"), fields...)(a, b) {
				found = true
				continue
			}
			// the same field of the message the config file was decoded into, or a default the tool allocated
			s := a.String()
			if strings.HasPrefix(s, "call[decode:google.golang.org/protobuf/") && strings.HasSuffix(s, "."+strings.Join(fields, ".")) {
				continue
			}
			if a.Op == flow.OpNew && strings.Contains(a.Name, "@"+checkPkg+".parseConfig") {
				continue
			}
			if a.IsConst("false") || a.IsConst("nil") || a.IsConst("0") || a.IsConst("true") || a.Op == flow.OpConst {
				continue
			}
			return false
		}
		return found
	}
}

// C19: the check tool's exit code is truthful, flags override config, it never crashes.
func C19(env *Env) {
	r := env.R
	r.Explanation = "tools/check.main reaches its normal end only through verify.TdxQuote(quote, RootOfTrustToOptions(config.RootOfTrust)) == nil and validate.TdxQuote(same quote, PolicyToOptions(config.Policy)) == nil, every earlier failure ending in a call that always reaches os.Exit; exit codes by error source: 1 for flag/config/quote-reading/conversion errors, 2 or 3 for verification failures (3 selected only by errors.As on the typed fetch errors), 4 for policy mismatches, and os.Exit is called nowhere else. Typed fetch errors: each errors.As target type is actually boxed into error by the library, and every wrap between its creation and verify.TdxQuote's return either returns it unchanged or wraps it with %w. Flag table: every byte-string flag is declared with the abi size of the same-named policy field and assigned to exactly that field only when set; unset flags store nothing; -trusted_roots replaces the config's list. parseConfig leaves no nil sub-message behind."
	r.TrustedBase = []string{"flag / go-sev-guest cmdline parsing, protobuf decoding, os.Exit", "go/ssa, go/types"}
	r.NotCovered = []string{"flag parsing inside flag/cmdline", "process exit status of the built binary"}
	mainFn := env.fn(checkPkg, "main")
	if mainFn == nil {
		return
	}
	e := env.engine(c19Atoms...)
	alts := e.EntryPaths(mainFn, flow.ModeAll)
	// only the path that falls off the end of main (no exit) matters
	var ends []*flow.Alt
	for _, a := range alts {
		if len(a.Ret.Results) == 0 {
			ends = append(ends, a)
		}
	}
	if len(ends) == 0 {
		r.Undecided("C19/EXIT0", "paths", env.P.Pos(mainFn.Pos()), "main has no normal end")
		return
	}
	quote := pat.Res("0", pat.Call(checkPkg+".readQuote"))
	sopts := pat.Res("0", pat.Call("verify.RootOfTrustToOptions", fromConfig("RootOfTrust")))
	vopts := pat.Res("0", pat.Call("validate.PolicyToOptions", fromConfig("Policy")))
	env.requireGates(e, ends, "", []gateSpec{
		{rule: "EXIT0", name: "config-parsed", m: pat.Bin("==", pat.Call(checkPkg+".parseConfig", pat.Any()), pat.Const("nil")), expect: "parseConfig(*config) == nil"},
		{rule: "EXIT0", name: "flags-merged", m: pat.Bin("==", pat.Call("go.uber.org/multierr.Combine", pat.Slice(pat.Op(flow.OpArray, "", pat.CallN(checkPkg+".populateRootOfTrust"), pat.CallN(checkPkg+".populateConfig")), "", "")), pat.Const("nil")), expect: "populateRootOfTrust() and populateConfig() succeed"},
		{rule: "EXIT0", name: "quote-read", m: pat.Bin("==", pat.Res("1", pat.Call(checkPkg+".readQuote")), pat.Const("nil")), expect: "readQuote() error == nil"},
		{rule: "EXIT0", name: "root-of-trust", m: pat.Bin("==", pat.Res("1", pat.Call("verify.RootOfTrustToOptions", fromConfig("RootOfTrust"))), pat.Const("nil")), expect: "verify.RootOfTrustToOptions(config.RootOfTrust) error == nil"},
		{rule: "EXIT0", name: "verify", m: pat.Bin("==", pat.Call("verify.TdxQuote", quote, sopts), pat.Const("nil")), expect: "verify.TdxQuote(quote, options from config.RootOfTrust) == nil"},
		{rule: "EXIT0", name: "policy", m: pat.Bin("==", pat.Res("1", pat.Call("validate.PolicyToOptions", fromConfig("Policy"))), pat.Const("nil")), expect: "validate.PolicyToOptions(config.Policy) error == nil"},
		{rule: "EXIT0", name: "validate", m: pat.Bin("==", pat.Call("validate.TdxQuote", quote, vopts), pat.Const("nil")), expect: "validate.TdxQuote(quote, options from config.Policy) == nil"},
		{rule: "EXIT0", name: "crl-needs-collateral", m: pat.Op("implies", "", fromConfig("RootOfTrust", "CheckCrl"), fromConfig("RootOfTrust", "GetCollateral")), expect: "check_crl implies get_collateral"},
	})
	env.c19ExitCodes(e, mainFn)
	env.c19TypedErrors()
	env.c19Flags()
	env.c19ParseConfig()
	// malformed policy / root-of-trust values are conversion errors (exit 1): the
	// conversions are decided by the rules of C14 and C02/R4
	env.via("C14", c14Own)
	env.via("C02", func(s *Env) { s.c02RootOfTrust() })
	// no config / flag combination crashes the tool (library entry points are decided by C10)
	env.safetyKinds("C19", map[string]bool{"B1": true, "B3": true, "B4": true}, checkPkg, "main", "verify.TdxQuote", "validate.TdxQuote", "verify.RootOfTrustToOptions", "validate.PolicyToOptions", "abi.QuoteToProto")
	r.Floor("C19/EXIT0", 8)
	r.Floor("C19/EXITCODE", 6)
	r.Floor("C19/TYPED-ERR", 6)
	r.Floor("C19/FLAG", 14)
	r.Floor("C19/NONNIL", 4)
	env.errorsNotLost("C19/ERRFLOW", inPackages(env.calleesBelow(mainFn), checkPkg, "tools/lib/cmdline"))
	r.Floor("C19/ERRFLOW", 10)
	r.Floor("C19/B1", 3)
}

func constIntOf(v ssa.Value) (int64, bool) {
	c, ok := v.(*ssa.Const)
	if !ok || c.Value == nil || c.Value.Kind() != constant.Int {
		return 0, false
	}
	return c.Int64(), true
}

// c19ExitCodes: which exit code each failure source gets.
func (env *Env) c19ExitCodes(e *flow.Engine, mainFn *ssa.Function) {
	r := env.R
	die := env.fn(checkPkg, "die")
	dieWith := env.fn(checkPkg, "dieWith")
	if die == nil || dieWith == nil {
		return
	}
	if !e.NoReturn(die) || !e.NoReturn(dieWith) {
		r.Fail("C19/EXITCODE", "die-always-exits", env.P.Pos(dieWith.Pos()), "die / dieWith must reach os.Exit on every path (a failure could otherwise fall through to exit status 0)")
	} else {
		r.OK("C19/EXITCODE", "die-always-exits", env.P.Pos(dieWith.Pos()), "die and dieWith never return")
	}
	codes := map[string]int64{}
	sp := env.P.SSA[load.RepoPath(checkPkg)]
	for _, n := range []string{"exitTool", "exitVerify", "exitNetwork", "exitPolicy"} {
		if c, ok := sp.Pkg.Scope().Lookup(n).(*types.Const); ok {
			v, _ := constant.Int64Val(c.Val())
			codes[n] = v
		}
	}
	if codes["exitTool"] == 1 && codes["exitVerify"] == 2 && codes["exitNetwork"] == 3 && codes["exitPolicy"] == 4 {
		r.OK("C19/EXITCODE", "table", "", "exit codes 1/2/3/4 as documented")
	} else {
		r.Fail("C19/EXITCODE", "table", "", fmt.Sprintf("exit code constants must be tool=1, verify=2, network=3, policy=4; are %v", codes))
	}
	// os.Exit only in dieWith, with its parameter
	nExit := 0
	for _, fn := range env.P.Funcs {
		if fn.Pkg == nil || fn.Pkg.Pkg.Path() != load.RepoPath(checkPkg) {
			continue
		}
		for _, b := range fn.Blocks {
			for _, in := range b.Instrs {
				if c, ok := in.(*ssa.Call); ok && c.Call.StaticCallee() != nil && c.Call.StaticCallee().String() == "os.Exit" {
					nExit++
					if fn == dieWith && c.Call.Args[0] == ssa.Value(dieWith.Params[1]) {
						r.OK("C19/EXITCODE", "os.Exit", env.P.Pos(c.Pos()), "os.Exit(exitCode) with the caller's code")
					} else {
						r.Fail("C19/EXITCODE", "os.Exit@"+env.P.Pos(c.Pos()), env.P.Pos(c.Pos()), "os.Exit may be called only by dieWith with the code it was given")
					}
				}
			}
		}
	}
	// die = dieWith(err, exitTool)
	for _, c := range env.P.Callers[dieWith] {
		if c.Parent() == die {
			if v, ok := constIntOf(c.Common().Args[1]); ok && v == 1 {
				r.OK("C19/EXITCODE", "die=1", env.P.Pos(c.Pos()), "die(err) exits 1")
			} else {
				r.Fail("C19/EXITCODE", "die=1", env.P.Pos(c.Pos()), "die must exit with the tool-error code 1")
			}
		}
	}
	// in main: the failure branch of verify exits 2|3, of validate exits 4, everything else through die (1)
	var verifyCall, validateCall *ssa.Call
	for _, b := range mainFn.Blocks {
		for _, in := range b.Instrs {
			if c, ok := in.(*ssa.Call); ok && c.Call.StaticCallee() != nil {
				switch load.FuncName(c.Call.StaticCallee()) {
				case "verify.TdxQuote":
					verifyCall = c
				case "validate.TdxQuote":
					validateCall = c
				}
			}
		}
	}
	for _, c := range env.P.Callers[dieWith] {
		if c.Parent() != mainFn {
			continue
		}
		code := e.Eval(c.Common().Args[1], e.Root(mainFn))
		where := env.P.Pos(c.Pos())
		vals := []*flow.Term{flow.StripConv(code)}
		if vals[0].Op == flow.OpPhi {
			vals = vals[0].Args
		}
		set := map[string]bool{}
		for _, v := range vals {
			set[flow.StripConv(v).String()] = true
		}
		afterVerify := verifyCall != nil && blockDominatedByFailureOf(c.Block(), verifyCall)
		afterValidate := validateCall != nil && blockDominatedByFailureOf(c.Block(), validateCall)
		switch {
		case afterValidate:
			if len(set) == 1 && set["4"] {
				r.OK("C19/EXITCODE", "policy=4", where, "validation failure exits 4")
			} else {
				r.Fail("C19/EXITCODE", "policy=4", where, "a policy mismatch must exit 4; exits "+code.String())
			}
		case afterVerify:
			if len(set) == 2 && set["2"] && set["3"] {
				r.OK("C19/EXITCODE", "verify=2|3", where, "verification failure exits 2, or 3 when classified as a download failure")
			} else {
				r.Fail("C19/EXITCODE", "verify=2|3", where, "a verification failure must exit 2, or 3 for download failures; exits "+code.String())
			}
		default:
			r.Fail("C19/EXITCODE", "dieWith@"+where, where, "unexpected dieWith call site in main")
		}
	}
	// every die(...) in main precedes the verification, or is the policy-conversion error
	for _, c := range env.P.Callers[die] {
		if c.Parent() != mainFn {
			continue
		}
		if verifyCall != nil && blockDominatedByFailureOf(c.Block(), verifyCall) {
			r.Fail("C19/EXITCODE", "die-in-verify-branch", env.P.Pos(c.Pos()), "a verification failure exits with the tool-error code 1")
		}
	}
	// 3 is stored only under errors.As on the verify error
	env.c19Network(e, mainFn, verifyCall)
}

// blockDominatedByFailureOf: b is reachable only through the "error != nil" edge of the test of call's result.
func blockDominatedByFailureOf(b *ssa.BasicBlock, call *ssa.Call) bool {
	for _, ref := range *call.Referrers() {
		bo, ok := ref.(*ssa.BinOp)
		if !ok || bo.Op != token.NEQ {
			continue
		}
		for _, r2 := range *bo.Referrers() {
			if iff, ok := r2.(*ssa.If); ok {
				t := iff.Block().Succs[0]
				if t == b || t.Dominates(b) {
					return true
				}
			}
		}
	}
	return false
}

// c19Network: the code 3 is chosen by errors.As with both typed targets applied to the verification error.
func (env *Env) c19Network(e *flow.Engine, mainFn *ssa.Function, verifyCall *ssa.Call) {
	r := env.R
	var asCalls []*ssa.Call
	var where string
	for _, fn := range env.P.Funcs {
		if fn.Pkg == nil || fn.Pkg.Pkg.Path() != load.RepoPath(checkPkg) {
			continue
		}
		for _, b := range fn.Blocks {
			for _, in := range b.Instrs {
				if c, ok := in.(*ssa.Call); ok && c.Call.StaticCallee() != nil && c.Call.StaticCallee().String() == "errors.As" {
					asCalls = append(asCalls, c)
					where = env.P.Pos(c.Pos())
				}
			}
		}
	}
	targets := map[string]bool{}
	for _, c := range asCalls {
		t := c.Call.Args[1]
		if mi, ok := t.(*ssa.MakeInterface); ok {
			if p, ok := mi.X.Type().Underlying().(*types.Pointer); ok {
				targets[load.TypeString(p.Elem())] = true
			}
		}
	}
	want := []string{"verify.CRLUnavailableErr", "*verify/trust.AttestationRecreationErr"}
	for _, w := range want {
		if targets[w] {
			r.OK("C19/TYPED-ERR", "errors.As:"+w, where, "network classification asks errors.As for "+w)
		} else {
			r.Fail("C19/TYPED-ERR", "errors.As:"+w, env.P.Pos(mainFn.Pos()), fmt.Sprintf("exit code 3 must be selected with errors.As (whole wrap chain) for target type %s; targets found: %v", w, keysOf(targets)))
		}
	}
	// the network code is stored only under a positive errors.As of the verification error
	nStore := 0
	for _, fn := range env.P.Funcs {
		if fn.Pkg == nil || fn.Pkg.Pkg.Path() != load.RepoPath(checkPkg) {
			continue
		}
		for _, b := range fn.Blocks {
			for _, in := range b.Instrs {
				st, ok := in.(*ssa.Store)
				if !ok {
					continue
				}
				if v, ok := constIntOf(st.Val); !ok || v != 3 {
					continue
				}
				if !strings.Contains(st.Addr.Type().String(), "*int") {
					continue
				}
				nStore++
				// every path from the function entry to the store takes the true
				// edge of an errors.As test: with those edges removed the store is unreachable
				okAll := !reachableAvoiding(fn, b, positiveNetworkEdge)
				if okAll {
					r.OK("C19/TYPED-ERR", "network-code-guard", env.P.Pos(st.Pos()), "exit code 3 is chosen only when errors.As found a typed download error")
				} else {
					r.Fail("C19/TYPED-ERR", "network-code-guard", env.P.Pos(st.Pos()), "exit code 3 can be chosen without errors.As having matched one of the typed download errors")
				}
				// the closure is applied to the verification error (or its Unwrap)
				for _, c := range env.P.Callers[fn] {
					if verifyCall == nil || len(c.Common().Args) == 0 {
						continue
					}
					arg := c.Common().Args[len(c.Common().Args)-1]
					if arg == ssa.Value(verifyCall) {
						continue
					}
					if uc, ok := arg.(*ssa.Call); ok && uc.Call.StaticCallee() != nil && uc.Call.StaticCallee().String() == "errors.Unwrap" && uc.Call.Args[0] == ssa.Value(verifyCall) {
						continue
					}
					r.Fail("C19/TYPED-ERR", "classified-error@"+env.P.Pos(c.Pos()), env.P.Pos(c.Pos()), "the error classified as a download failure must be the error verify.TdxQuote returned")
				}
			}
		}
	}
	// the same selection written as a helper: `return exitNetwork` in a function of
	// the tool, reachable only through a positive network test
	for _, fn := range env.P.Funcs {
		if fn.Pkg == nil || fn.Pkg.Pkg.Path() != load.RepoPath(checkPkg) {
			continue
		}
		res := fn.Signature.Results()
		if res.Len() != 1 || !isIntType(res.At(0).Type()) {
			continue
		}
		for _, b := range fn.Blocks {
			ret, ok := b.Instrs[len(b.Instrs)-1].(*ssa.Return)
			if !ok || len(ret.Results) != 1 {
				continue
			}
			if v, ok := constIntOf(ret.Results[0]); !ok || v != 3 {
				continue
			}
			nStore++
			if !reachableAvoiding(fn, b, positiveNetworkEdge) {
				r.OK("C19/TYPED-ERR", "network-code-guard", env.P.Pos(ret.Pos()), "exit code 3 is chosen only when errors.As found a typed download error")
			} else {
				r.Fail("C19/TYPED-ERR", "network-code-guard", env.P.Pos(ret.Pos()), "exit code 3 can be chosen without errors.As having matched one of the typed download errors")
			}
			for _, c := range env.P.Callers[fn] {
				if verifyCall == nil || len(c.Common().Args) == 0 {
					continue
				}
				arg := c.Common().Args[len(c.Common().Args)-1]
				if arg == ssa.Value(verifyCall) {
					continue
				}
				r.Fail("C19/TYPED-ERR", "classified-error@"+env.P.Pos(c.Pos()), env.P.Pos(c.Pos()), "the error classified as a download failure must be the error verify.TdxQuote returned")
			}
		}
	}
	if nStore == 0 {
		r.Fail("C19/TYPED-ERR", "network-code-guard", env.P.Pos(mainFn.Pos()), "exit code 3 is never selected")
	}
	// each target type must be boxed into error somewhere in the library
	boxed := map[string]string{}
	for _, fn := range env.P.Funcs {
		for _, b := range fn.Blocks {
			for _, in := range b.Instrs {
				if mi, ok := in.(*ssa.MakeInterface); ok && isErrType(mi.Type()) {
					boxed[load.TypeString(mi.X.Type())] = env.P.Pos(mi.Pos())
				}
			}
		}
	}
	for t := range targets {
		if pos, ok := boxed[t]; ok {
			r.OK("C19/TYPED-ERR", "producible:"+t, pos, "the library boxes "+t+" into error")
		} else {
			r.Fail("C19/TYPED-ERR", "producible:"+t, where, "errors.As asks for "+t+", which the library never returns as an error (only a different pointer/value form is produced): the network exit code is unreachable")
		}
	}
}

func keysOf(m map[string]bool) []string {
	var ks []string
	for k := range m {
		ks = append(ks, k)
	}
	return ks
}

// c19TypedErrors: the typed fetch errors survive every wrap up to verify.TdxQuote.
func (env *Env) c19TypedErrors() {
	r := env.R
	typed := map[string]bool{"verify.CRLUnavailableErr": true, "*verify/trust.AttestationRecreationErr": true}
	// functions that can return a typed error directly
	carries := map[*ssa.Function]bool{}
	inVerify := func(fn *ssa.Function) bool {
		for fn.Parent() != nil {
			fn = fn.Parent()
		}
		return fn.Pkg != nil && fn.Pkg.Pkg.Path() == load.RepoPath("verify")
	}
	for _, fn := range env.P.Funcs {
		if !inVerify(fn) {
			continue
		}
		for _, b := range fn.Blocks {
			for _, in := range b.Instrs {
				if mi, ok := in.(*ssa.MakeInterface); ok && isErrType(mi.Type()) && typed[load.TypeString(mi.X.Type())] {
					carries[fn] = true
				}
				// every boxing of one of the typed error structs uses the form the
				// tool's errors.As targets ask for (value vs pointer)
				if mi, ok := in.(*ssa.MakeInterface); ok && isErrType(mi.Type()) {
					ts := load.TypeString(mi.X.Type())
					base := strings.TrimPrefix(ts, "*")
					if base == "verify.CRLUnavailableErr" || base == "verify/trust.AttestationRecreationErr" {
						key := "form@" + load.FuncName(fn) + ":" + ts
						if typed[ts] {
							r.OK("C19/TYPED-ERR", key, env.P.Pos(mi.Pos()), "typed error boxed in the form errors.As is asked for")
						} else {
							r.Fail("C19/TYPED-ERR", key, env.P.Pos(mi.Pos()), fmt.Sprintf("%s returns the typed download error as %s, but the tool's errors.As target matches only the other form (value vs pointer): this failure is reported with exit code 2 instead of 3", load.FuncName(fn), ts))
						}
					}
				}
			}
		}
	}
	n := 0
	stepEngine := env.engine()
	// propagate upwards through callers
	work := []*ssa.Function{}
	for f := range carries {
		work = append(work, f)
	}
	for len(work) > 0 {
		f := work[len(work)-1]
		work = work[:len(work)-1]
		callers := append([]ssa.CallInstruction{}, env.P.Callers[f]...)
		// handed as a step to a helper that calls it through the parameter
		steps, _ := stepEngine.StepSites(f)
		callers = append(callers, steps...)
		if par := f.Parent(); par != nil && len(steps) == 0 {
			// a function literal is run through a function value: every call of a
			// function value with an error result in the function that creates it
			// may be a call of it
			for _, b := range par.Blocks {
				for _, in := range b.Instrs {
					if c, ok := in.(*ssa.Call); ok && c.Call.StaticCallee() == nil && !c.Call.IsInvoke() {
						if _, isBuiltin := c.Call.Value.(*ssa.Builtin); !isBuiltin && isErrType(c.Type()) {
							callers = append(callers, c)
						}
					}
				}
			}
		}
		for _, c := range callers {
			caller := c.Parent()
			if !inVerify(caller) {
				continue
			}
			cv := c.Value()
			if cv == nil {
				continue
			}
			// the error result of the call
			var errv ssa.Value
			if isErrType(cv.Type()) {
				errv = cv
			} else {
				for _, ref := range *cv.Referrers() {
					if ex, ok := ref.(*ssa.Extract); ok && isErrType(ex.Type()) {
						errv = ex
					}
				}
			}
			if errv == nil {
				continue
			}
			n++
			key := fmt.Sprintf("%s<-%s", load.FuncName(caller), load.FuncName(f))
			how, ok := wrapKeepsType(errv)
			if ok {
				r.OK("C19/TYPED-ERR", key, env.P.Pos(c.Pos()), how)
				if !carries[caller] {
					carries[caller] = true
					work = append(work, caller)
				}
			} else {
				r.Fail("C19/TYPED-ERR", key, env.P.Pos(c.Pos()), fmt.Sprintf("%s loses the typed download error of %s: %s (errors.As cannot find it, so a network failure is reported as a verification failure)", load.FuncName(caller), load.FuncName(f), how))
			}
		}
	}
	if top := env.P.Func("verify", "TdxQuote"); top != nil && carries[top] {
		r.OK("C19/TYPED-ERR", "reaches-TdxQuote", env.P.Pos(top.Pos()), "typed errors propagate to verify.TdxQuote's return")
	} else {
		r.Fail("C19/TYPED-ERR", "reaches-TdxQuote", "", "no wrap-preserving chain carries the typed download errors to verify.TdxQuote's return")
	}
}

// wrapKeepsType: errv is returned unchanged, or wrapped by fmt.Errorf with %w on its position.
func wrapKeepsType(errv ssa.Value) (string, bool) {
	if errv.Referrers() == nil {
		return "error unused", false
	}
	direct, wrapped, lost := false, false, ""
	for _, ref := range *errv.Referrers() {
		switch x := ref.(type) {
		case *ssa.Return:
			direct = true
		case *ssa.Phi:
			if flowsToReturn(x) {
				direct = true
			}
		case *ssa.MakeInterface, *ssa.ChangeInterface:
			// boxed into the varargs of a formatting call
			for _, r2 := range *x.(ssa.Value).Referrers() {
				st, ok := r2.(*ssa.Store)
				if !ok {
					continue
				}
				ia, ok := st.Addr.(*ssa.IndexAddr)
				if !ok {
					continue
				}
				idx, ok := constIntOf(ia.Index)
				if !ok {
					continue
				}
				al, ok := ia.X.(*ssa.Alloc)
				if !ok {
					continue
				}
				for _, r3 := range *al.Referrers() {
					sl, ok := r3.(*ssa.Slice)
					if !ok {
						continue
					}
					for _, r4 := range *sl.Referrers() {
						c, ok := r4.(*ssa.Call)
						if !ok || c.Call.StaticCallee() == nil || c.Call.StaticCallee().String() != "fmt.Errorf" {
							continue
						}
						fc, ok := c.Call.Args[0].(*ssa.Const)
						if !ok || fc.Value == nil {
							continue
						}
						verbs := formatVerbs(constant.StringVal(fc.Value))
						if int(idx) < len(verbs) && verbs[idx] == 'w' && flowsToReturn(c) {
							wrapped = true
						} else if flowsToReturn(c) {
							v := byte('?')
							if int(idx) < len(verbs) {
								v = verbs[idx]
							}
							lost = fmt.Sprintf("wrapped by fmt.Errorf(%q) with %%%c instead of %%w", constant.StringVal(fc.Value), v)
						}
					}
				}
			}
		}
	}
	switch {
	case lost != "":
		return lost, false
	case wrapped:
		return "wrapped with %w", true
	case direct:
		return "returned unchanged", true
	}
	return "the error does not reach the return", false
}

// formatVerbs lists the verb letters of a format string in argument order.
func formatVerbs(f string) []byte {
	var vs []byte
	for i := 0; i < len(f); i++ {
		if f[i] != '%' {
			continue
		}
		i++
		for i < len(f) && strings.ContainsRune("+-# 0123456789.", rune(f[i])) {
			i++
		}
		if i < len(f) && f[i] != '%' {
			vs = append(vs, f[i])
		}
	}
	return vs
}

// c19Flags: the flag table.
func (env *Env) c19Flags() {
	r := env.R
	pc := env.fn(checkPkg, "populateConfig")
	if pc == nil {
		return
	}
	e := env.engine()
	// closures of populateConfig
	var setNonNil *ssa.Function
	for _, a := range pc.AnonFuncs {
		if len(a.Params) == 2 && strings.Contains(a.Params[0].Type().String(), "*[]byte") {
			setNonNil = a
		}
	}
	if setNonNil == nil {
		r.Undecided("C19/FLAG", "setNonNil", env.P.Pos(pc.Pos()), "the assign-when-set helper of populateConfig was not found")
		return
	}
	// helper contract: stores only under value != nil, and stores the value
	okHelper := false
	for _, b := range setNonNil.Blocks {
		for _, in := range b.Instrs {
			if st, ok := in.(*ssa.Store); ok && st.Addr == ssa.Value(setNonNil.Params[0]) && st.Val == ssa.Value(setNonNil.Params[1]) {
				if len(b.Preds) == 1 {
					if iff, ok := b.Preds[0].Instrs[len(b.Preds[0].Instrs)-1].(*ssa.If); ok {
						if bo, ok := iff.Cond.(*ssa.BinOp); ok && bo.Op == token.NEQ && (bo.X == ssa.Value(setNonNil.Params[1]) || bo.Y == ssa.Value(setNonNil.Params[1])) && b.Preds[0].Succs[0] == b {
							okHelper = true
						}
					}
				}
			}
		}
	}
	if okHelper {
		r.OK("C19/FLAG", "assign-only-when-set", env.P.Pos(setNonNil.Pos()), "*dest = value only when value != nil (an unset flag leaves the config's value)")
	} else {
		r.Fail("C19/FLAG", "assign-only-when-set", env.P.Pos(setNonNil.Pos()), "the flag-merge helper must store exactly the flag's value and only when it is non-nil")
	}
	// each call: dest field <-> flag variable <-> declared size
	n := 0
	for _, b := range pc.Blocks {
		for _, in := range b.Instrs {
			c, ok := in.(*ssa.Call)
			if !ok {
				continue
			}
			if mc, ok := c.Call.Value.(*ssa.MakeClosure); !ok || mc.Fn != setNonNil {
				if c.Call.Value != ssa.Value(setNonNil) {
					continue
				}
			}
			n++
			dest := e.Eval(c.Call.Args[0], e.Root(pc))
			val := e.Eval(c.Call.Args[1], e.Root(pc))
			d := flow.StripConv(dest)
			if d.Op != flow.OpAddr || d.Args[0].Op != flow.OpField {
				r.Fail("C19/FLAG", "dest@"+env.P.Pos(c.Pos()), env.P.Pos(c.Pos()), "flag destination is not a policy field: "+dest.String())
				continue
			}
			field := d.Args[0].Name
			grp := ""
			if d.Args[0].Args[0].Op == flow.OpField {
				grp = d.Args[0].Args[0].Name
			}
			// the flag variable: deref of global initialised by cmdline.Bytes("-name", size, strvar)
			s := val.String()
			flagName, size := "", ""
			val.Walk(func(t *flow.Term) bool {
				if t.Op == flow.OpGlobal && len(t.Args) == 1 {
					init := flow.StripConv(t.Args[0])
					if init.Op == flow.OpCall && strings.HasSuffix(init.Name, "tools/lib/cmdline.Bytes") && len(init.Args) == 3 {
						flagName = strings.Trim(init.Args[0].Name, `"`)
						size = flow.StripConv(init.Args[1]).Name
					}
				}
				return true
			})
			sizeField := field
			if normName(field) == "minimumteetcbsvn" {
				sizeField = "TeeTcbSvn"
			}
			cname, cval := env.abiSize(sizeField)
			okName := normName(strings.TrimPrefix(flagName, "-")) == normName(field)
			okSize := cname != "" && size == cval
			key := grp + "." + field
			if okName && okSize {
				r.OK("C19/FLAG", key, env.P.Pos(c.Pos()), fmt.Sprintf("flag %s (size abi.%s) -> policy.%s", flagName, cname, key))
			} else {
				r.Fail("C19/FLAG", key, env.P.Pos(c.Pos()), fmt.Sprintf("policy field %s must be overridden by the same-named flag declared with abi.%s=%s; gets flag %q of size %s (%s)", key, cname, cval, flagName, size, truncate(s, 160)))
			}
		}
	}
	if n == 0 {
		r.Fail("C19/FLAG", "calls", env.P.Pos(pc.Pos()), "populateConfig assigns no byte-string flag")
	}
	// the two numeric minimums and the booleans
	for _, w := range []struct{ fn, dest, name string }{
		{"setUint32", "MinimumQeSvn", `"minimum_qe_svn"`}, {"setUint32", "MinimumPceSvn", `"minimum_pce_svn"`},
		{"setBool", "CheckCrl", `"check_crl"`}, {"setBool", "GetCollateral", `"get_collateral"`},
	} {
		f := env.P.Func(checkPkg, w.fn)
		found := false
		for _, c := range env.P.Callers[f] {
			if len(c.Common().Args) < 2 {
				continue
			}
			dest := e.Eval(c.Common().Args[0], e.UnknownCtx(c.Parent()))
			d := flow.StripConv(dest)
			// the flag's name and text are arguments of their own or members of a
			// parameter struct describing the flag
			named, fromFlag := false, false
			for _, a := range c.Common().Args[1:] {
				at := e.Eval(a, e.UnknownCtx(c.Parent()))
				if at.Contains(func(x *flow.Term) bool { return x.IsConst(w.name) }) {
					named = true
				}
				// the flag value is the same-named flag variable
				if strings.Contains(at.String(), "flag.String") || strings.Contains(at.String(), "@"+checkPkg+".") {
					fromFlag = true
				}
			}
			if d.Op == flow.OpAddr && d.Args[0].Op == flow.OpField && d.Args[0].Name == w.dest && named && fromFlag {
				found = true
				r.OK("C19/FLAG", w.dest, env.P.Pos(c.Pos()), w.fn+"(&"+w.dest+", "+w.name+", flag)")
			}
		}
		if !found {
			r.Fail("C19/FLAG", w.dest, "", "no "+w.fn+" call merges flag "+w.name+" into "+w.dest)
		}
	}
	// -trusted_roots replaces the config's list
	if prt := env.fn(checkPkg, "populateRootOfTrust"); prt != nil {
		e := env.engine(checkPkg + ".parsePaths")
		ok := false
		for _, s := range env.storesTo("proto/checkconfig.RootOfTrust", "CabundlePaths") {
			if s.Parent() != prt {
				continue
			}
			v := e.Eval(s.Val, e.Root(prt))
			if pat.Res("0", pat.Call(checkPkg+".parsePaths", pat.Any()))(v, pat.Bind{}) {
				ok = true
				r.OK("C19/FLAG", "trusted_roots", env.P.Pos(s.Pos()), "rot.CabundlePaths = parsePaths(*cabundles) (replaces the config's list)")
			} else {
				r.Fail("C19/FLAG", "trusted_roots", env.P.Pos(s.Pos()), "-trusted_roots must replace the config's bundle list with exactly the flag's paths; stores "+v.String())
				ok = true
			}
		}
		if !ok {
			r.Fail("C19/FLAG", "trusted_roots", env.P.Pos(prt.Pos()), "-trusted_roots is never merged into the root of trust")
		}
	}
}

func truncate(s string, n int) string {
	if len(s) > n {
		return s[:n] + "…"
	}
	return s
}

// c19ParseConfig: after parseConfig every sub-message populateConfig dereferences is non-nil.
func (env *Env) c19ParseConfig() {
	r := env.R
	fn := env.fn(checkPkg, "parseConfig")
	if fn == nil {
		return
	}
	e := env.engine()
	want := []string{"RootOfTrust", "Policy", "Policy.HeaderPolicy", "Policy.TdQuoteBodyPolicy"}
	for _, w := range want {
		parts := strings.Split(w, ".")
		last := parts[len(parts)-1]
		found := false
		for _, b := range fn.Blocks {
			for _, in := range b.Instrs {
				st, ok := in.(*ssa.Store)
				if !ok {
					continue
				}
				fa, ok := st.Addr.(*ssa.FieldAddr)
				if !ok || fieldNameOf(fa) != last {
					continue
				}
				chain, ok := configChain(fa)
				if !ok || strings.Join(chain, ".") != w {
					continue
				}
				// stored value is a fresh message and the block is guarded by place == nil
				v := e.Eval(st.Val, e.Root(fn))
				guarded := false
				if len(b.Preds) == 1 {
					if iff, ok := b.Preds[0].Instrs[len(b.Preds[0].Instrs)-1].(*ssa.If); ok && b.Preds[0].Succs[0] == b {
						if bo, ok := iff.Cond.(*ssa.BinOp); ok && bo.Op == token.EQL {
							guarded = dominatesSuccess(e, fn, iff.Block())
						}
					}
				}
				if v.Op == flow.OpNew && guarded {
					found = true
				}
			}
		}
		if found {
			r.OK("C19/NONNIL", w, env.P.Pos(fn.Pos()), "config."+w+" is populated when absent, on every successful parse")
		} else {
			r.Fail("C19/NONNIL", w, env.P.Pos(fn.Pos()), "after a successful parseConfig, config."+w+" can be nil although populateConfig / main dereference it: a config file lacking it crashes the tool")
		}
	}
}

// configChain returns the field path of fa below the tool's config variable
// (config.A.B -> [A B]); ok is false when fa is not such a place.
func configChain(fa *ssa.FieldAddr) ([]string, bool) {
	var path []string
	cur := fa
	for {
		path = append([]string{fieldNameOf(cur)}, path...)
		ld, ok := cur.X.(*ssa.UnOp)
		if !ok || ld.Op != token.MUL {
			return nil, false
		}
		switch x := ld.X.(type) {
		case *ssa.Global:
			return path, load.GlobalName(x) == checkPkg+".config"
		case *ssa.FieldAddr:
			cur = x
		default:
			return nil, false
		}
	}
}

func fieldNameOf(fa *ssa.FieldAddr) string {
	k, ok := load.FieldKeyOf(fa.X.Type(), fa.Field)
	if !ok {
		return ""
	}
	return k.Field
}

// dominatesSuccess: block b dominates every non-failing return of fn that is reachable after the config was read.
func dominatesSuccess(e *flow.Engine, fn *ssa.Function, b *ssa.BasicBlock) bool {
	any := false
	for _, blk := range fn.Blocks {
		ret, ok := blk.Instrs[len(blk.Instrs)-1].(*ssa.Return)
		if !ok || e.RetIsFail(ret) {
			continue
		}
		// the early "no config file" return is not after decoding
		if !blockReachesBlock(b, blk) && b != blk {
			continue
		}
		any = true
		if !(b == blk || b.Dominates(blk)) {
			return false
		}
	}
	return any
}

// reachableAvoiding: is block target reachable from the entry of fn when the
// edges selected by cut(block, successor index) are removed?
func reachableAvoiding(fn *ssa.Function, target *ssa.BasicBlock, cut func(p *ssa.BasicBlock, succ int) bool) bool {
	seen := map[*ssa.BasicBlock]bool{}
	stack := []*ssa.BasicBlock{fn.Blocks[0]}
	for len(stack) > 0 {
		b := stack[len(stack)-1]
		stack = stack[:len(stack)-1]
		if b == target {
			return true
		}
		if seen[b] {
			continue
		}
		seen[b] = true
		for i, s := range b.Succs {
			if !cut(b, i) {
				stack = append(stack, s)
			}
		}
	}
	return false
}

// positiveNetworkEdge: the true edge of a test that holds only when errors.As
// matched: errors.As itself, or a predicate of the tool all of whose `true`
// results come from such tests.
func positiveNetworkEdge(p *ssa.BasicBlock, succ int) bool {
	iff, ok := p.Instrs[len(p.Instrs)-1].(*ssa.If)
	if !ok || succ != 0 {
		return false
	}
	c, ok := iff.Cond.(*ssa.Call)
	if !ok || c.Call.StaticCallee() == nil {
		return false
	}
	return isNetworkPredicate(c.Call.StaticCallee(), map[*ssa.Function]bool{})
}

func isNetworkPredicate(fn *ssa.Function, busy map[*ssa.Function]bool) bool {
	if fn.String() == "errors.As" {
		return true
	}
	if fn.Blocks == nil || busy[fn] {
		return false
	}
	res := fn.Signature.Results()
	if res.Len() != 1 {
		return false
	}
	if b, ok := res.At(0).Type().Underlying().(*types.Basic); !ok || b.Kind() != types.Bool {
		return false
	}
	busy[fn] = true
	defer delete(busy, fn)
	for _, b := range fn.Blocks {
		ret, ok := b.Instrs[len(b.Instrs)-1].(*ssa.Return)
		if !ok {
			continue
		}
		switch v := ret.Results[0].(type) {
		case *ssa.Const:
			if constBoolVal(v) && reachableAvoiding(fn, b, positiveNetworkEdge) {
				return false // a `return true` not behind a positive test
			}
		case *ssa.Call:
			if v.Call.StaticCallee() == nil || !isNetworkPredicate(v.Call.StaticCallee(), busy) {
				return false
			}
		case *ssa.Phi:
			for _, ed := range v.Edges {
				switch x := ed.(type) {
				case *ssa.Const:
					if constBoolVal(x) {
						return false
					}
				case *ssa.Call:
					if x.Call.StaticCallee() == nil || !isNetworkPredicate(x.Call.StaticCallee(), busy) {
						return false
					}
				default:
					return false
				}
			}
		default:
			return false
		}
	}
	return true
}

func constBoolVal(c *ssa.Const) bool {
	return c.Value != nil && c.Value.Kind() == constant.Bool && constant.BoolVal(c.Value)
}
