package props

import (
	"fmt"
	"sync"

	"tdxlint/internal/check"

	"golang.org/x/tools/go/ssa"

	"tdxlint/internal/flow"
	"tdxlint/internal/load"
)

func init() { Registry["C10"] = C10 }

var c10Entries = []struct{ pkg, fn string }{
	{"abi", "QuoteToProto"}, {"abi", "QuoteToAbiBytes"}, {"abi", "CheckQuoteV4"},
	{"abi", "HeaderToAbiBytes"}, {"abi", "TdQuoteBodyToAbiBytes"}, {"abi", "EnclaveReportToAbiBytes"},
	{"verify", "TdxQuote"}, {"verify", "RawTdxQuote"}, {"verify", "ExtractChainFromQuote"},
	{"validate", "TdxQuote"}, {"validate", "RawTdxQuote"},
	{"pcs", "PckCertificateExtensions"},
	{"rtmr", "ParseCcelWithTdQuote"},
}

// C10: no entry point crashes on untrusted quotes, quote messages or collateral.
func C10(env *Env) {
	r := env.R
	r.Explanation = "For every instruction reachable on the inlined call trees of the public parsing, serialisation, verification, validation, chain-extraction and PCK-extension entry points (inputs unconstrained: any byte string, any message shape with any pointer nil and any field length, any getter response), each crash obligation is discharged from the checks that dominate it, for all input values at once: B1 index/slice bounds and the length preconditions of encoding/binary (linear arithmetic over lengths with the gates enforced on the path, including the validity facts established by abi.CheckQuoteV4 and facts at every call site on the call string); B2 pointer dereferences (fresh allocation, dominating nil test, or a library contract); B3 type assertions without comma-ok, explicit panics, make with possibly negative length, division; NC narrowing integer conversions; B4 every loop is a counted/range loop and the call tree is acyclic. An obligation that cannot be discharged is reported with its call path."
	r.TrustedBase = []string{"no panic, hang or unbounded allocation inside dependencies (crypto/x509, encoding/asn1, encoding/json, encoding/pem, protobuf, go-eventlog)", "generated protobuf getters (nil-safe shape verified)", "go/ssa, go/types"}
	r.NotCovered = []string{"panics inside dependencies", "stack depth and memory exhaustion", "the verifier's HTTPS getter implementations (environment)"}
	r.Assumptions = append(r.Assumptions, "slice lengths and size fields are below 2^31 (a uint32 offset computation such as 0x27C + SignedDataSize does not wrap): an input of 2 GiB or more is out of scope")
	total := map[string]int{}
	type job struct {
		fn    *ssa.Function
		asm   map[string]bool
		atoms []string
		label string
	}
	var jobs []job
	for _, en := range c10Entries {
		fn := env.fn(en.pkg, en.fn)
		if fn == nil {
			continue
		}
		// the verification entry points are analysed once per assignment of the two
		// option flags (trace partitioning): the collateral objects exist exactly
		// when GetCollateral is set, and a join would lose that correlation
		optBase := map[string]string{
			"verify.TdxQuote":           "$verify.TdxQuote#1",
			"rtmr.ParseCcelWithTdQuote": "$rtmr.ParseCcelWithTdQuote#3.Verification",
		}[load.FuncName(fn)]
		// the Raw* entry points add only the parser in front of an entry point that
		// is itself analysed for every message: the inner entry is an atom there
		var atoms []string
		switch load.FuncName(fn) {
		case "verify.RawTdxQuote":
			atoms = []string{"verify.TdxQuote"}
		case "validate.RawTdxQuote":
			atoms = []string{"validate.TdxQuote"}
		}
		if optBase == "" {
			jobs = append(jobs, job{fn, nil, atoms, ""})
			continue
		}
		for _, gc := range []bool{false, true} {
			for _, cr := range []bool{false, true} {
				jobs = append(jobs, job{fn, map[string]bool{optBase + ".GetCollateral": gc, optBase + ".CheckRevocations": cr}, atoms, fmt.Sprintf("|gc=%v,cr=%v", gc, cr)})
			}
		}
	}
	results := make([]*check.Result, len(jobs))
	counts := make([]map[string]int, len(jobs))
	var wg sync.WaitGroup
	sem := make(chan struct{}, 8)
	for i, j := range jobs {
		wg.Add(1)
		go func(i int, j job) {
			defer wg.Done()
			sem <- struct{}{}
			defer func() { <-sem }()
			sub := &Env{P: env.P, R: check.NewResult("C10"), Tier: env.Tier}
			e := sub.engine(j.atoms...)
			for k, v := range j.asm {
				e.Assume[k] = v
			}
			s := &safetyRun{env: sub, e: e, rule: "C10", entry: j.fn, gcache: map[string][][]*flow.Term{}, n: map[string]int{}, label: j.label}
			s.run()
			results[i], counts[i] = sub.R, s.n
		}(i, j)
	}
	wg.Wait()
	for i := range jobs {
		r.Merge(results[i], "")
		for k, v := range counts[i] {
			total[k] += v
		}
	}
	r.Extra["obligations_by_kind"] = total
	_ = fmt.Sprint
	_ = load.RepoModule
	var _ *ssa.Function
	r.Floor("C10/B1", 60)
	r.Floor("C10/B2", 100)
	r.Floor("C10/NC", 5)
	r.Floor("C10/B4", 10)
}

// safetyOf runs the crash-freedom obligations of the call tree below pkg.fn under rule prefix `rule`.
func (env *Env) safetyOf(rule, pkg, fn string, atoms ...string) map[string]int {
	return env.safetyKinds(rule, nil, pkg, fn, atoms...)
}

// safetyKinds is safetyOf restricted to the given obligation kinds.
func (env *Env) safetyKinds(rule string, kinds map[string]bool, pkg, fn string, atoms ...string) map[string]int {
	f := env.fn(pkg, fn)
	if f == nil {
		return nil
	}
	s := &safetyRun{env: env, e: env.engine(atoms...), rule: rule, entry: f, gcache: map[string][][]*flow.Term{}, n: map[string]int{}, kinds: kinds}
	s.run()
	return s.n
}
