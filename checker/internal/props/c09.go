package props

import (
	"fmt"
	"strings"

	"golang.org/x/tools/go/ssa"

	"tdxlint/internal/flow"
	"tdxlint/internal/pat"
)

func init() { Registry["C09"] = C09 }

var abiParseHelpers = []string{"headerToProto", "tdQuoteBodyToProto", "signedDataToProto", "certificationDataToProto", "qeReportCertificationDataToProto", "enclaveReportToProto", "qeAuthDataToProto", "pckCertificateChainToProto"}
var abiSerHelpers = []string{"HeaderToAbiBytes", "TdQuoteBodyToAbiBytes", "EnclaveReportToAbiBytes", "signedDataToAbiBytes", "certificationDataToAbiBytes", "qeReportCertificationDataToAbiBytes", "qeAuthDataToAbiBytes", "pckCertificateChainToAbiBytes"}
var abiChecks = []string{"CheckQuoteV4", "checkHeader", "checkTDQuoteBody", "checkEcdsa256BitQuoteV4AuthData", "checkCertificationData", "checkQeReportCertificationData", "checkQeAuthData", "checkPCKCertificateChain", "checkQeReport"}

// abiEngine: every abi helper except `self` is an atom.
func (env *Env) abiEngine(self string) *flow.Engine {
	var atoms []string
	for _, grp := range [][]string{abiParseHelpers, abiSerHelpers, abiChecks} {
		for _, h := range grp {
			if h != self {
				atoms = append(atoms, "abi."+h)
			}
		}
	}
	return env.engine(atoms...)
}

// C09: parsing and serialising quotes are exact inverses on the v4 wire format.
func C09(env *Env) {
	r := env.R
	r.Explanation = "Fixed parts (header 48, TD body 584, enclave report 384): the serialiser's writes tile its fresh output buffer from every field of the message without gap or overlap, the parser assigns every field the same bytes with the same width and byte order, both equal the layout derived independently from proto/tdx.proto (field order and 'should be N bytes' comments), the validity predicate demands exactly those widths, and every uint16 narrowing in a serialiser is dominated by the predicate's '< 65536' gate. Variable tail: each parse helper's fields and sub-parser arguments are the stated slices of its (cloned) input — signed-data size at 0x278, signed data [0x27C, 0x27C+size), extra bytes after it, signature/key at 0/0x40, certification header u16+u32 with 'size == remaining length' as an exact equality, QE report / signature / auth data (u16 size + data) / PCK chain (u16 type + u32 size + rest) — guarded by the length checks; each composite serialiser concatenates the same parts in the same order with the size/type headers written little-endian from the same fields; the predicate fixes version 4, key type 2, TEE type 0x81, certification types 6 and 5 and ties each size field to the actual length; CheckQuoteV4 closes the parser and opens the serialiser."
	r.TrustedBase = []string{"encoding/binary little-endian codecs, builtin copy/append", "go/ssa, go/types"}
	r.NotCovered = []string{"byte-for-byte equality on concrete inputs (a runtime statement; what is decided is that both directions map the same field to the same bytes, completely, in agreement with an independent table)"}
	layoutObligations(env, "C09", nil)
	env.c09ParseTail()
	env.c09SerTail()
	env.c09Constants()
	env.c09Entry()
	// no lossy arithmetic on sizes and offsets in either direction
	kinds := map[string]bool{"NC": true, "OV": true}
	env.safetyKinds("C09", kinds, "abi", "QuoteToProto")
	env.safetyKinds("C09", kinds, "abi", "QuoteToAbiBytes")
	var entries []*ssa.Function
	for _, n := range []string{"QuoteToProto", "QuoteToAbiBytes", "CheckQuoteV4", "HeaderToAbiBytes", "TdQuoteBodyToAbiBytes", "EnclaveReportToAbiBytes"} {
		if f := env.fn("abi", n); f != nil {
			entries = append(entries, f)
		}
	}
	env.errorsNotLost("C09/ERRFLOW", inPackages(env.calleesBelow(entries...), "abi"))
	r.Floor("C09/ERRFLOW", 10)
	r.Floor("C09/NC", 10)
	r.Floor("C09/LAYOUT", 15)
	r.Floor("C09/NARROW", 7)
	r.Floor("C09/PRED", 28)
	r.Floor("C09/PARSE", 30)
	r.Floor("C09/SER", 10)
	r.Floor("C09/CONST", 9)
	r.Floor("C09/ENTRY", 4)
}

func le(n int, x pat.M) pat.M {
	return pat.Call(fmt.Sprintf("(encoding/binary.littleEndian).Uint%d", n), pat.Global("encoding/binary.LittleEndian"), x)
}

// c09ParseTail: the variable-length part of the parser, helper by helper.
func (env *Env) c09ParseTail() {
	r := env.R
	type fieldExp struct {
		name string
		m    func(in pat.M) pat.M
		desc string
	}
	type helperExp struct {
		fn    string
		gates []struct {
			name string
			m    func(b *flow.Term, in pat.M) pat.M
			desc string
		}
		fields []fieldExp
		extra  func(a *flow.Alt, in pat.M) string // "" ok
	}
	sl := func(in pat.M, lo, hi string) pat.M { return pat.Slice(in, lo, hi) }
	c := func(name string) string { return env.repoConst("abi", name) }
	sub := func(helper string, arg pat.M) pat.M { return pat.Res("0", pat.Call("abi."+helper, arg)) }
	sdSize := func(in pat.M) pat.M { return le(32, sl(in, "632", "636")) }
	sdEnd := func(in pat.M) pat.M { return pat.Bin("+", pat.Const("636"), sdSize(in)) }
	authSize := func(in pat.M) pat.M { return pat.Conv(le(16, sl(in, "0", "2"))) }
	authEnd := func(in pat.M) pat.M { return pat.Bin("+", pat.Const("2"), authSize(in)) }
	open := func(in pat.M, lo pat.M) pat.M {
		return func(t *flow.Term, b pat.Bind) bool {
			t = flow.StripConv(t)
			return t.Op == flow.OpSlice && in(t.Args[0], b) && lo(t.Args[1], b) && t.Args[2].IsConst("")
		}
	}
	between := func(in pat.M, lo, hi pat.M) pat.M {
		return func(t *flow.Term, b pat.Bind) bool {
			t = flow.StripConv(t)
			return t.Op == flow.OpSlice && in(t.Args[0], b) && lo(t.Args[1], b) && hi(t.Args[2], b)
		}
	}
	type gate = struct {
		name string
		m    func(b *flow.Term, in pat.M) pat.M
		desc string
	}
	minLen := func(n string) gate {
		return gate{"min-length", func(b *flow.Term, in pat.M) pat.M { return pat.Bin("<=", pat.Const(n), pat.Len(pat.Is(b))) }, "len(input) >= " + n}
	}
	helpers := []helperExp{
		{fn: "quoteToProtoV4",
			gates: []gate{minLen(c("QuoteMinSize")),
				{"signed-data-fits", func(b *flow.Term, in pat.M) pat.M {
					return pat.Bin("<=", sdSize(in), pat.Conv(pat.Bin("-", pat.Len(pat.Is(b)), pat.Const("636"))))
				}, "SignedDataSize <= len(input) - 0x27C"},
			},
			fields: []fieldExp{
				{"Header", func(in pat.M) pat.M { return sub("headerToProto", sl(in, "0", "48")) }, "headerToProto(in[0:48])"},
				{"TdQuoteBody", func(in pat.M) pat.M { return sub("tdQuoteBodyToProto", sl(in, "48", "632")) }, "tdQuoteBodyToProto(in[48:632])"},
				{"SignedDataSize", sdSize, "LE32(in[0x278:0x27C])"},
				{"SignedData", func(in pat.M) pat.M { return sub("signedDataToProto", between(in, pat.Const("636"), sdEnd(in))) }, "signedDataToProto(in[0x27C : 0x27C+SignedDataSize])"},
				{"ExtraBytes", func(in pat.M) pat.M {
					rest := open(in, sdEnd(in))
					return func(t *flow.Term, b pat.Bind) bool {
						t = flow.StripConv(t)
						if rest(t, b) {
							return true
						}
						if t.Op != flow.OpPhi && t.Op != flow.OpIte {
							return false
						}
						seen := false
						for _, a := range t.Args {
							switch {
							case rest(a, b):
								seen = true
							case a.IsConst("nil"), t.Op == flow.OpIte && a == t.Args[0]:
							default:
								return false
							}
						}
						return seen
					}
				}, "in[0x27C+SignedDataSize:] (nil when empty)"},
			}},
		{fn: "signedDataToProto", gates: []gate{minLen("128")},
			fields: []fieldExp{
				{"Signature", func(in pat.M) pat.M { return sl(in, "0", "64") }, "in[0:64]"},
				{"EcdsaAttestationKey", func(in pat.M) pat.M { return sl(in, "64", "128") }, "in[64:128]"},
				{"CertificationData", func(in pat.M) pat.M { return sub("certificationDataToProto", open(in, pat.Const("128"))) }, "certificationDataToProto(in[128:])"},
			}},
		{fn: "certificationDataToProto",
			gates: []gate{minLen("6"),
				{"size-is-remaining-length", func(b *flow.Term, in pat.M) pat.M {
					return pat.Bin("==", le(32, sl(in, "2", "6")), pat.Conv(pat.Bin("-", pat.Len(pat.Is(b)), pat.Const("6"))))
				}, "certification data Size == len(input) - 6 (exact)"},
			},
			fields: []fieldExp{
				{"CertificateDataType", func(in pat.M) pat.M { return pat.Conv(le(16, sl(in, "0", "2"))) }, "LE16(in[0:2])"},
				{"Size", func(in pat.M) pat.M { return le(32, sl(in, "2", "6")) }, "LE32(in[2:6])"},
				{"QeReportCertificationData", func(in pat.M) pat.M { return sub("qeReportCertificationDataToProto", open(in, pat.Const("6"))) }, "qeReportCertificationDataToProto(in[6:])"},
			}},
		{fn: "qeReportCertificationDataToProto", gates: []gate{minLen("448")},
			fields: []fieldExp{
				{"QeReport", func(in pat.M) pat.M { return sub("enclaveReportToProto", sl(in, "0", "384")) }, "enclaveReportToProto(in[0:384])"},
				{"QeReportSignature", func(in pat.M) pat.M { return sl(in, "384", "448") }, "in[384:448]"},
				{"QeAuthData", func(in pat.M) pat.M { return sub("qeAuthDataToProto", open(in, pat.Const("448"))) }, "qeAuthDataToProto(in[448:])"},
				{"PckCertificateChainData", func(in pat.M) pat.M {
					end := pat.Res("1", pat.Call("abi.qeAuthDataToProto", open(in, pat.Const("448"))))
					return sub("pckCertificateChainToProto", open(in, pat.Bin("+", pat.Const("448"), end)))
				}, "pckCertificateChainToProto(in[448 + end of auth data:])"},
			}},
		{fn: "qeAuthDataToProto",
			gates: []gate{minLen("2"),
				{"data-fits", func(b *flow.Term, in pat.M) pat.M { return pat.Bin("<=", authEnd(in), pat.Conv(pat.Len(pat.Is(b)))) }, "2 + ParsedDataSize <= len(input)"},
			},
			fields: []fieldExp{
				{"ParsedDataSize", authSize, "LE16(in[0:2])"},
				{"Data", func(in pat.M) pat.M { return between(in, pat.Const("2"), authEnd(in)) }, "in[2 : 2+ParsedDataSize]"},
			},
			extra: func(a *flow.Alt, in pat.M) string {
				if len(a.Results) == 3 && authEnd(in)(a.Results[1], pat.Bind{}) {
					return ""
				}
				return "the consumed length returned must be 2 + ParsedDataSize"
			}},
		{fn: "pckCertificateChainToProto", gates: []gate{minLen("6")},
			fields: []fieldExp{
				{"CertificateDataType", func(in pat.M) pat.M { return pat.Conv(le(16, sl(in, "0", "2"))) }, "LE16(in[0:2])"},
				{"Size", func(in pat.M) pat.M { return le(32, sl(in, "2", "6")) }, "LE32(in[2:6])"},
				{"PckCertChain", func(in pat.M) pat.M { return open(in, pat.Const("6")) }, "in[6:]"},
			}},
	}
	for _, h := range helpers {
		fn := env.fn("abi", h.fn)
		if fn == nil {
			continue
		}
		e := env.abiEngine(h.fn)
		b := param(fn, 0)
		in := pat.Is(flow.T(flow.OpCopyOf, "", b))
		alts := e.EntryPaths(fn, flow.ModeErr)
		if len(alts) == 0 {
			r.Undecided("C09/PARSE", h.fn, env.P.Pos(fn.Pos()), "no success alternative")
			continue
		}
		var specs []gateSpec
		for _, g := range h.gates {
			specs = append(specs, gateSpec{rule: "PARSE", name: h.fn + "#" + g.name, m: g.m(b, in), expect: g.desc})
		}
		env.requireGates(e, alts, "", specs)
		for _, a := range alts {
			o := e.Object(a.Results[0], a.Ctx)
			if o.Op != flow.OpStruct {
				r.Undecided("C09/PARSE", h.fn+"#result", env.P.Pos(a.Ret.Pos()), "parser does not return a freshly built message")
				continue
			}
			seen := map[string]bool{}
			for _, f := range h.fields {
				seen[f.name] = true
				var got *flow.Term
				for _, fi := range o.Args {
					if fi.Name == f.name {
						got = fi.Args[0]
					}
				}
				if got != nil && f.m(in)(got, pat.Bind{}) {
					r.OK("C09/PARSE", h.fn+"."+f.name, env.P.Pos(a.Ret.Pos()), f.name+" = "+f.desc)
				} else {
					r.Fail("C09/PARSE", h.fn+"."+f.name, env.P.Pos(a.Ret.Pos()), fmt.Sprintf("%s must set %s = %s; sets %s", h.fn, f.name, f.desc, truncate(fmt.Sprint(got), 240)))
				}
			}
			for _, fi := range o.Args {
				if !seen[fi.Name] && fi.Name != "state" && fi.Name != "sizeCache" && fi.Name != "unknownFields" {
					r.Fail("C09/PARSE", h.fn+"."+fi.Name+"#unexpected", env.P.Pos(a.Ret.Pos()), "message field "+fi.Name+" is not part of the v4 layout table of "+h.fn)
				}
			}
			if h.extra != nil {
				if why := h.extra(a, in); why != "" {
					r.Fail("C09/PARSE", h.fn+"#extra", env.P.Pos(a.Ret.Pos()), why)
				} else {
					r.OK("C09/PARSE", h.fn+"#extra", env.P.Pos(a.Ret.Pos()), "auxiliary result as stated")
				}
			}
			// the helper's own validity predicate closes it
			chk := map[string]string{"quoteToProtoV4": "CheckQuoteV4", "signedDataToProto": "checkEcdsa256BitQuoteV4AuthData", "certificationDataToProto": "checkCertificationData",
				"qeReportCertificationDataToProto": "checkQeReportCertificationData", "qeAuthDataToProto": "checkQeAuthData", "pckCertificateChainToProto": "checkPCKCertificateChain"}[h.fn]
			if hasGateAny(a, pat.Bin("==", pat.Call("abi."+chk, pat.Is(a.Results[0])), pat.Const("nil"))) != nil {
				r.OK("C09/PARSE", h.fn+"#predicate", env.P.Pos(a.Ret.Pos()), chk+"(result) == nil before success")
			} else {
				r.Fail("C09/PARSE", h.fn+"#predicate", env.P.Pos(a.Ret.Pos()), h.fn+" must accept only results that satisfy "+chk)
			}
		}
	}
}

// c09SerTail: composite serialisers concatenate the same parts in the same order.
func (env *Env) c09SerTail() {
	r := env.R
	type part struct {
		desc string
		m    func(e *flow.Engine, fn *ssa.Function, msg *flow.Term) pat.M
	}
	subSer := func(helper string, field string) part {
		return part{helper + "(msg." + field + ")", func(e *flow.Engine, fn *ssa.Function, msg *flow.Term) pat.M {
			return pat.Res("0", pat.Call("abi."+helper, pat.Is(fieldT(msg, field))))
		}}
	}
	// a fresh fixed buffer whose writes are exactly the given segments
	fixedBuf := func(size int64, want []seg) part {
		var ds []string
		for _, w := range want {
			ds = append(ds, w.String())
		}
		return part{fmt.Sprintf("fresh %d-byte buffer {%s}", size, strings.Join(ds, ", ")), func(e *flow.Engine, fn *ssa.Function, msg *flow.Term) pat.M {
			return func(t *flow.Term, b pat.Bind) bool {
				t = flow.StripConv(t)
				// one little-endian integer appended with binary.LittleEndian.AppendUintN
				if t.Op == flow.OpCall && strings.HasPrefix(t.Name, "le.bytes") && len(want) == 1 && len(t.Args) == 1 {
					w := want[0]
					return fmt.Sprintf("le.bytes%d", size*8) == t.Name && w.lo == 0 && w.hi == size && w.kind == fmt.Sprintf("u%d", size*8) &&
						flow.Eq(flow.StripConv(t.Args[0]), fieldT(msg, w.field))
				}
				if t.Op == flow.OpSlice {
					t = flow.StripConv(t.Args[0])
				}
				if n, ok := arrayLenOf(t); !ok || n != size {
					return false
				}
				segs, probs := env.bufferWrites(e, fn, t, size, msg)
				if len(probs) > 0 {
					return false
				}
				ok, _ := segsEqual(segs, want)
				return ok && tiling(segs, size) == ""
			}
		}}
	}
	fieldPart := func(field string) part {
		return part{"msg." + field, func(e *flow.Engine, fn *ssa.Function, msg *flow.Term) pat.M {
			f := pat.Is(fieldT(msg, field))
			return pat.OneOf(f, pat.Op(flow.OpCopyOf, "", f))
		}}
	}
	composites := []struct {
		fn    string
		parts []part
		tail  *part // optional trailing part (ExtraBytes)
	}{
		{"quoteToAbiBytesV4", []part{subSer("HeaderToAbiBytes", "Header"), subSer("TdQuoteBodyToAbiBytes", "TdQuoteBody"),
			fixedBuf(4, []seg{{0, 4, "SignedDataSize", "u32", -1, ""}}), subSer("signedDataToAbiBytes", "SignedData")}, &part{"msg.ExtraBytes", fieldPart("ExtraBytes").m}},
		{"signedDataToAbiBytes", []part{fixedBuf(128, []seg{{0, 64, "Signature", "bytes", -1, ""}, {64, 128, "EcdsaAttestationKey", "bytes", -1, ""}}),
			subSer("certificationDataToAbiBytes", "CertificationData")}, nil},
		{"certificationDataToAbiBytes", []part{fixedBuf(6, []seg{{0, 2, "CertificateDataType", "u16", -1, ""}, {2, 6, "Size", "u32", -1, ""}}),
			subSer("qeReportCertificationDataToAbiBytes", "QeReportCertificationData")}, nil},
		{"qeReportCertificationDataToAbiBytes", []part{subSer("EnclaveReportToAbiBytes", "QeReport"), fieldPart("QeReportSignature"),
			subSer("qeAuthDataToAbiBytes", "QeAuthData"), subSer("pckCertificateChainToAbiBytes", "PckCertificateChainData")}, nil},
	}
	for _, cpt := range composites {
		fn := env.fn("abi", cpt.fn)
		if fn == nil {
			continue
		}
		e := env.abiEngine(cpt.fn)
		msg := param(fn, 0)
		alts := e.EntryPaths(fn, flow.ModeErr)
		if len(alts) == 0 {
			r.Undecided("C09/SER", cpt.fn, env.P.Pos(fn.Pos()), "no success alternative")
			continue
		}
		for _, a := range alts {
			res := flow.StripConv(a.Results[0])
			variants := []*flow.Term{res}
			condOK := true
			if res.Op == flow.OpIte {
				variants = []*flow.Term{flow.StripConv(res.Args[1]), flow.StripConv(res.Args[2])}
				// the trailing part may be left out only when it is empty
				if cpt.tail != nil {
					x := pat.Is(fieldT(msg, "ExtraBytes"))
					condOK = pat.OneOf(pat.Bin("!=", x, pat.Const("nil")), pat.NonEmpty(x), pat.Bin("<", pat.Const("0"), pat.Len(x)))(res.Args[0], pat.Bind{}) &&
						flow.StripConv(res.Args[1]).Op == flow.OpConcat && len(flow.StripConv(res.Args[1]).Args) == len(cpt.parts)+1
				}
			} else if res.Op == flow.OpPhi {
				variants = res.Args
			}
			okAll := true
			why := ""
			sawTail := false
			for _, v := range variants {
				v = flow.StripConv(v)
				if v.Op != flow.OpConcat {
					okAll, why = false, "result is not a concatenation: "+truncate(v.String(), 160)
					break
				}
				args := v.Args
				if cpt.tail != nil && len(args) == len(cpt.parts)+1 {
					if !cpt.tail.m(e, fn, msg)(args[len(args)-1], pat.Bind{}) {
						okAll, why = false, "trailing part must be "+cpt.tail.desc
						break
					}
					sawTail = true
					args = args[:len(args)-1]
				}
				if len(args) != len(cpt.parts) {
					okAll, why = false, fmt.Sprintf("%d parts concatenated, %d expected", len(args), len(cpt.parts))
					break
				}
				for i, p := range cpt.parts {
					if !p.m(e, fn, msg)(args[i], pat.Bind{}) {
						okAll, why = false, fmt.Sprintf("part %d must be %s; is %s", i+1, p.desc, truncate(args[i].String(), 160))
						break
					}
				}
			}
			if !condOK && okAll {
				okAll, why = false, "the trailing bytes are appended only under "+truncate(res.Args[0].String(), 120)+": non-empty trailing bytes can be dropped"
			}
			if cpt.tail != nil && !sawTail && okAll {
				okAll, why = false, "the message's "+cpt.tail.desc+" is never appended"
			}
			var ds []string
			for _, p := range cpt.parts {
				ds = append(ds, p.desc)
			}
			if okAll {
				r.OK("C09/SER", cpt.fn+"#order", env.P.Pos(a.Ret.Pos()), "concatenates "+strings.Join(ds, " || "))
			} else {
				r.Fail("C09/SER", cpt.fn+"#order", env.P.Pos(a.Ret.Pos()), cpt.fn+" must concatenate "+strings.Join(ds, " || ")+": "+why)
			}
			chk := map[string]string{"quoteToAbiBytesV4": "CheckQuoteV4", "signedDataToAbiBytes": "checkEcdsa256BitQuoteV4AuthData", "certificationDataToAbiBytes": "checkCertificationData", "qeReportCertificationDataToAbiBytes": "checkQeReportCertificationData"}[cpt.fn]
			if hasGateAny(a, pat.Bin("==", pat.Call("abi."+chk, pat.Is(msg)), pat.Const("nil"))) != nil {
				r.OK("C09/SER", cpt.fn+"#predicate", env.P.Pos(a.Ret.Pos()), chk+"(msg) == nil first")
			} else {
				r.Fail("C09/SER", cpt.fn+"#predicate", env.P.Pos(a.Ret.Pos()), cpt.fn+" must serialise only messages that satisfy "+chk)
			}
		}
	}
	// the two variable-size leaf serialisers
	for _, leaf := range []struct {
		fn   string
		base int64
		size string
		want []seg
	}{
		{"qeAuthDataToAbiBytes", 2, "ParsedDataSize", []seg{{0, 2, "ParsedDataSize", "u16", -1, ""}, {2, -1, "Data", "bytes", -1, ""}}},
		{"pckCertificateChainToAbiBytes", 6, "Size", []seg{{0, 2, "CertificateDataType", "u16", -1, ""}, {2, 6, "Size", "u32", -1, ""}, {6, -1, "PckCertChain", "bytes", -1, ""}}},
	} {
		fn := env.fn("abi", leaf.fn)
		if fn == nil {
			continue
		}
		e := env.abiEngine(leaf.fn)
		msg := param(fn, 0)
		for _, a := range e.EntryPaths(fn, flow.ModeErr) {
			res := flow.StripConv(a.Results[0])
			wantLen := pat.Bin("+", pat.Const(fmt.Sprint(leaf.base)), pat.Is(fieldT(msg, leaf.size)))
			if res.Op != flow.OpMake || !wantLen(res.Args[0], pat.Bind{}) {
				r.Fail("C09/SER", leaf.fn+"#buffer", env.P.Pos(a.Ret.Pos()), fmt.Sprintf("%s must return a fresh buffer of %d + msg.%s bytes; returns %s", leaf.fn, leaf.base, leaf.size, truncate(res.String(), 160)))
				continue
			}
			segs, probs := env.bufferWrites(e, fn, res, -1, msg)
			ok, why := segsEqual(segs, leaf.want)
			if len(probs) == 0 && ok {
				r.OK("C09/SER", leaf.fn+"#layout", env.P.Pos(a.Ret.Pos()), "header fields little-endian at the stated offsets, payload after them")
			} else {
				r.Fail("C09/SER", leaf.fn+"#layout", env.P.Pos(a.Ret.Pos()), fmt.Sprintf("%s layout mismatch: %s %v", leaf.fn, why, probs))
			}
		}
		env.narrowingCovered(env.engine(), fn, "C09", leaf.fn)
	}
	for _, name := range []string{"certificationDataToAbiBytes"} {
		if fn := env.fn("abi", name); fn != nil {
			env.narrowingCovered(env.engine(), fn, "C09", name)
		}
	}
}

// c09Constants: the values the validity predicate pins.
func (env *Env) c09Constants() {
	type cexp struct {
		fn, name string
		m        func(msg *flow.Term) pat.M
		desc     string
	}
	f := func(msg *flow.Term, n string) pat.M { return pat.Is(fieldT(msg, n)) }
	exps := []cexp{
		{"checkHeader", "version", func(m *flow.Term) pat.M { return pat.Bin("==", f(m, "Version"), pat.Const("4")) }, "Header.Version == 4"},
		{"checkHeader", "key-type", func(m *flow.Term) pat.M { return pat.Bin("==", f(m, "AttestationKeyType"), pat.Const("2")) }, "Header.AttestationKeyType == 2"},
		{"checkHeader", "tee-type", func(m *flow.Term) pat.M { return pat.Bin("==", f(m, "TeeType"), pat.Const("129")) }, "Header.TeeType == 0x81"},
		{"checkCertificationData", "type-6", func(m *flow.Term) pat.M { return pat.Bin("==", f(m, "CertificateDataType"), pat.Const("6")) }, "certification data type == 6"},
		{"checkPCKCertificateChain", "type-5", func(m *flow.Term) pat.M { return pat.Bin("==", f(m, "CertificateDataType"), pat.Const("5")) }, "PCK chain data type == 5"},
		{"checkPCKCertificateChain", "size-is-length", func(m *flow.Term) pat.M { return pat.Bin("==", f(m, "Size"), pat.Conv(pat.Len(f(m, "PckCertChain")))) }, "PCK chain Size == len(PckCertChain)"},
		{"checkQeAuthData", "size-is-length", func(m *flow.Term) pat.M {
			return pat.Bin("==", f(m, "ParsedDataSize"), pat.Conv(pat.Len(f(m, "Data"))))
		}, "QE auth ParsedDataSize == len(Data)"},
		{"checkQeReportCertificationData", "signature-size", func(m *flow.Term) pat.M { return pat.Bin("==", pat.Len(f(m, "QeReportSignature")), pat.Const("64")) }, "len(QeReportSignature) == 64"},
		{"checkEcdsa256BitQuoteV4AuthData", "signature-size", func(m *flow.Term) pat.M { return pat.Bin("==", pat.Len(f(m, "Signature")), pat.Const("64")) }, "len(Signature) == 64"},
		{"checkEcdsa256BitQuoteV4AuthData", "key-size", func(m *flow.Term) pat.M { return pat.Bin("==", pat.Len(f(m, "EcdsaAttestationKey")), pat.Const("64")) }, "len(EcdsaAttestationKey) == 64"},
	}
	for _, x := range exps {
		fn := env.fn("abi", x.fn)
		if fn == nil {
			continue
		}
		e := env.abiEngine(x.fn)
		alts := e.EntryPaths(fn, flow.ModeErr)
		env.requireGates(e, alts, "", []gateSpec{{rule: "CONST", name: x.fn + "#" + x.name, m: x.m(param(fn, 0)), expect: x.desc}})
	}
	// nesting of the predicates
	nest := []struct{ fn, inner, field string }{
		{"CheckQuoteV4", "checkHeader", "Header"}, {"CheckQuoteV4", "checkTDQuoteBody", "TdQuoteBody"}, {"CheckQuoteV4", "checkEcdsa256BitQuoteV4AuthData", "SignedData"},
		{"checkEcdsa256BitQuoteV4AuthData", "checkCertificationData", "CertificationData"}, {"checkCertificationData", "checkQeReportCertificationData", "QeReportCertificationData"},
		{"checkQeReportCertificationData", "checkQeReport", "QeReport"}, {"checkQeReportCertificationData", "checkQeAuthData", "QeAuthData"}, {"checkQeReportCertificationData", "checkPCKCertificateChain", "PckCertificateChainData"},
	}
	for _, n := range nest {
		fn := env.fn("abi", n.fn)
		if fn == nil {
			continue
		}
		e := env.abiEngine(n.fn)
		alts := e.EntryPaths(fn, flow.ModeErr)
		env.requireGates(e, alts, "", []gateSpec{{rule: "CONST", name: n.fn + ">" + n.inner, m: pat.Bin("==", pat.Call("abi."+n.inner, pat.Is(fieldT(param(fn, 0), n.field))), pat.Const("nil")), expect: n.inner + "(msg." + n.field + ") == nil"}})
	}
}

// c09Entry: QuoteToProto dispatches on the version; QuoteToAbiBytes on the type.
func (env *Env) c09Entry() {
	r := env.R
	if fn := env.fn("abi", "QuoteToProto"); fn != nil {
		e := env.engine("abi.quoteToProtoV4")
		b := param(fn, 0)
		alts := e.EntryPaths(fn, flow.ModeErr)
		ver := pat.Conv(le(16, pat.Slice(pat.Op(flow.OpCopyOf, "", pat.Is(b)), "0", "2")))
		env.requireGates(e, alts, "", []gateSpec{
			{rule: "ENTRY", name: "version-dispatch", m: pat.Bin("==", ver, pat.Const("4")), expect: "LE16(input[0:2]) == 4 selects the v4 parser"},
			{rule: "ENTRY", name: "version-readable", m: pat.Bin("<=", pat.Const("2"), pat.Len(pat.Is(b))), expect: "len(input) >= 2"},
		})
		for _, a := range alts {
			if pat.Res("0", pat.Call("abi.quoteToProtoV4", pat.Is(b)))(a.Results[0], pat.Bind{}) {
				r.OK("C09/ENTRY", "QuoteToProto-delegates", env.P.Pos(a.Ret.Pos()), "returns quoteToProtoV4(input)")
			} else {
				r.Fail("C09/ENTRY", "QuoteToProto-delegates", env.P.Pos(a.Ret.Pos()), "QuoteToProto must return quoteToProtoV4 of the whole input; returns "+truncate(a.Results[0].String(), 200))
			}
		}
	}
	if fn := env.fn("abi", "QuoteToAbiBytes"); fn != nil {
		e := env.engine("abi.quoteToAbiBytesV4")
		for _, a := range e.EntryPaths(fn, flow.ModeErr) {
			if pat.Res("0", pat.Call("abi.quoteToAbiBytesV4", pat.Is(param(fn, 0))))(a.Results[0], pat.Bind{}) {
				r.OK("C09/ENTRY", "QuoteToAbiBytes-delegates", env.P.Pos(a.Ret.Pos()), "returns quoteToAbiBytesV4(quote)")
			} else {
				r.Fail("C09/ENTRY", "QuoteToAbiBytes-delegates", env.P.Pos(a.Ret.Pos()), "QuoteToAbiBytes must return quoteToAbiBytesV4(quote); returns "+truncate(a.Results[0].String(), 200))
			}
		}
	}
}
