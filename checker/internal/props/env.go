// Package props holds one checker per property; each is a declarative table
// of rules evaluated with the shared engines.
package props

import (
	"fmt"
	"go/constant"
	"go/types"
	"sort"
	"strings"

	"golang.org/x/tools/go/ssa"

	"tdxlint/internal/check"
	"tdxlint/internal/flow"
	"tdxlint/internal/load"
	"tdxlint/internal/pat"
)

// Env is the per-run environment handed to a property checker.
type Env struct {
	P    *load.Program
	R    *check.Result
	Tier string
}

// Checker is the signature of a property checker.
type Checker func(env *Env)

// Registry maps property ids to checkers.
var Registry = map[string]Checker{}

// IDs returns the registered property ids in order.
func IDs() []string {
	var ids []string
	for k := range Registry {
		ids = append(ids, k)
	}
	sort.Strings(ids)
	return ids
}

// fn resolves a repository function or fails the check (unresolved anchor).
func (env *Env) fn(pkg, name string) *ssa.Function {
	f := env.P.Func(pkg, name)
	if f == nil {
		env.R.Undecided(env.R.Property+"/ANCHOR", pkg+"."+name, "", fmt.Sprintf("anchor function %s.%s not found in the loaded program", pkg, name))
		return nil
	}
	env.R.Functions[load.FuncName(f)] = true
	return f
}

func (env *Env) method(pkg, typ, name string) *ssa.Function {
	f := env.P.Method(pkg, typ, name)
	if f == nil {
		env.R.Undecided(env.R.Property+"/ANCHOR", pkg+"."+typ+"."+name, "", fmt.Sprintf("anchor method %s.%s.%s not found in the loaded program", pkg, typ, name))
		return nil
	}
	env.R.Functions[load.FuncName(f)] = true
	return f
}

// via runs rules that belong to another property and includes their
// obligations in this property's result (rule ids Cxx/VIA-Cyy/...).
func (env *Env) via(prop string, run func(*Env)) {
	sub := &Env{P: env.P, R: check.NewResult(prop), Tier: env.Tier}
	run(sub)
	env.R.Include(sub.R)
}

// engine creates an engine with the named repository functions as atoms.
func (env *Env) engine(atoms ...string) *flow.Engine {
	e := flow.NewEngine(env.P)
	for _, a := range atoms {
		i := strings.LastIndex(a, ".")
		if f := env.P.Func(a[:i], a[i+1:]); f != nil {
			e.Atoms[f] = true
		} else {
			env.R.Undecided(env.R.Property+"/ANCHOR", a, "", "atom function "+a+" not found")
		}
	}
	return e
}

// libConst returns the exact literal of a constant declared in a (dependency)
// package, as go/ssa prints it, e.g. libConst("crypto/x509","ECDSAWithSHA256").
func (env *Env) libConst(pkgPath, name string) string {
	for _, p := range env.P.Pkgs {
		if tp := findImport(p.Types, pkgPath, map[*types.Package]bool{}); tp != nil {
			if c, ok := tp.Scope().Lookup(name).(*types.Const); ok {
				if c.Val().Kind() == constant.String {
					return fmt.Sprintf("%q", constant.StringVal(c.Val()))
				}
				return c.Val().ExactString()
			}
		}
	}
	env.R.Undecided(env.R.Property+"/ANCHOR", pkgPath+"."+name, "", "library constant not found")
	return "?"
}

func findImport(p *types.Package, path string, seen map[*types.Package]bool) *types.Package {
	if p == nil || seen[p] {
		return nil
	}
	seen[p] = true
	if p.Path() == path {
		return p
	}
	for _, im := range p.Imports() {
		if r := findImport(im, path, seen); r != nil {
			return r
		}
	}
	return nil
}

// repoConst returns the literal of a constant declared in a repository package.
func (env *Env) repoConst(pkg, name string) string {
	sp := env.P.SSA[load.RepoPath(pkg)]
	if sp != nil {
		if c, ok := sp.Pkg.Scope().Lookup(name).(*types.Const); ok {
			if c.Val().Kind() == constant.String {
				return fmt.Sprintf("%q", constant.StringVal(c.Val()))
			}
			return c.Val().ExactString()
		}
	}
	env.R.Undecided(env.R.Property+"/ANCHOR", pkg+"."+name, "", "repository constant not found")
	return "?"
}

// collectFns records the functions the alternatives passed through.
func (env *Env) noteAlts(alts []*flow.Alt) {
	for _, a := range alts {
		for _, g := range a.Gates {
			if g.Fn != nil {
				env.R.Functions[load.FuncName(g.Fn)] = true
			}
			if g.Call != nil {
				env.R.CallSites++
			}
		}
	}
}

// gateSpec is one required gate.
type gateSpec struct {
	rule   string // rule id suffix
	name   string // construct name
	m      pat.M
	forall bool // must be a forall gate
	expect string
	// alt, when set, decides the clause on the whole alternative (a clause that
	// may be spread over several gates); it is tried when no single gate matches m
	alt func(a *flow.Alt) bool
}

// requireGates checks that every success alternative contains a gate matching
// each spec; part labels the partition (e.g. option assignment).
func (env *Env) requireGates(e *flow.Engine, alts []*flow.Alt, part string, specs []gateSpec) {
	env.noteAlts(alts)
	for _, sp := range specs {
		rule := env.R.Property + "/" + sp.rule
		construct := sp.name
		if part != "" {
			construct += "|" + part
		}
		okAll := true
		where := ""
		for _, a := range alts {
			found := false
			for _, g := range a.Gates {
				if sp.forall && g.Loop == "" {
					continue
				}
				if sp.m(g.Pred, pat.Bind{}) {
					found = true
					if where == "" {
						where = env.P.Pos(g.Pos)
					}
					break
				}
			}
			if !found && sp.alt != nil && sp.alt(a) {
				found = true
			}
			if !found {
				okAll = false
				env.R.Fail(rule, construct, env.P.Pos(a.Ret.Pos()),
					fmt.Sprintf("a success path of %s (return at %s, %s) does not enforce: %s", load.FuncName(a.Ret.Parent()), env.P.Pos(a.Ret.Pos()), part, sp.expect),
					"call string: "+strings.Join(a.Ctx.CallString(), " > "), near(e, a, sp))
				break
			}
		}
		if okAll && len(alts) > 0 {
			env.R.OK(rule, construct, where, fmt.Sprintf("enforced on all %d success alternatives", len(alts)))
		}
	}
}

// near lists gates that mention the same anchor call as the expectation, to
// make a report diagnosable.
func near(e *flow.Engine, a *flow.Alt, sp gateSpec) string {
	words := strings.FieldsFunc(sp.expect, func(r rune) bool {
		return !(r == '.' || r == '_' || r >= 'a' && r <= 'z' || r >= 'A' && r <= 'Z' || r >= '0' && r <= '9')
	})
	best := ""
	for _, g := range a.Gates {
		s := g.String()
		for _, w := range words {
			if len(w) > 6 && strings.Contains(s, w) {
				if len(s) > 600 {
					s = s[:600] + "…"
				}
				best += "\n      near: " + s + " @" + e.P.Pos(g.Pos)
				break
			}
		}
		if strings.Count(best, "\n") >= 3 {
			break
		}
	}
	if best == "" {
		return "no gate on this path mentions the expected primitive"
	}
	return "gates on this path mentioning the expected primitive:" + best
}

// optionPartitions enumerates the assignments of the two verification flags.
type partition struct {
	name   string
	assume map[string]bool
	gc, cr bool
}

func verifyPartitions(entry *ssa.Function) []partition {
	opt := fmt.Sprintf("$%s#1", load.FuncName(entry))
	var ps []partition
	for _, gc := range []bool{false, true} {
		for _, cr := range []bool{false, true} {
			ps = append(ps, partition{
				name:   fmt.Sprintf("GetCollateral=%v,CheckRevocations=%v", gc, cr),
				assume: map[string]bool{opt + ".GetCollateral": gc, opt + ".CheckRevocations": cr},
				gc:     gc, cr: cr,
			})
		}
	}
	return ps
}

// param returns the term of parameter i of an entry function.
func param(fn *ssa.Function, i int) *flow.Term {
	return flow.T(flow.OpParam, fmt.Sprintf("%s#%d", load.FuncName(fn), i))
}

// fieldT builds x.f1.f2...
func fieldT(x *flow.Term, names ...string) *flow.Term {
	for _, n := range names {
		x = flow.T(flow.OpField, n, x)
	}
	return x
}
