package props

import (
	"fmt"
	"go/token"
	"go/types"
	"sort"
	"strconv"
	"strings"

	"golang.org/x/tools/go/ssa"

	"tdxlint/internal/flow"
	"tdxlint/internal/load"
	"tdxlint/internal/pat"
)

func init() { Registry["C12"] = C12 }

// C12: options gate the checks exactly; more checking never accepts more.
func C12(env *Env) {
	r := env.R
	r.Explanation = "Monotonicity (sufficient condition): for option assignments w <= w' every accept path under w' enforces a superset of the gates of some accept path under w, so turning checks on never adds an accept path. Fetch gating: the Getter.Get call sites reachable on the pruned inlined call tree are none without GetCollateral, exactly the TCB-Info and QE-Identity requests with it, and additionally the PCK-CRL and Root-CA-CRL requests with CheckRevocations; each uses options.Getter, defaulted only when nil. URL operands: TCB Info is requested for the FMSPC of the quote's PCK certificate, the PCK CRL for the CA chosen by the leaf's issuer common name; the three URL builders have the documented formats. No history: the only stores into a caller's Options are the unexported per-call fields, each stored unconditionally before the first reader of the same call; exported fields are never written; no package-level mutable state is touched on the verification path."
	r.TrustedBase = []string{"fmt.Sprintf formatting", "go/ssa, go/types"}
	r.NotCovered = []string{"determinism of dependencies", "verdict equality itself (only the structural sufficient condition is decided)"}
	entry := env.fn("verify", "TdxQuote")
	if entry == nil {
		return
	}
	q := quoteOf(entry)
	opt := param(entry, 1)
	leaf := pemCert(pat.Is(q.Chain), 0)
	parts := verifyPartitions(entry)
	altsOf := map[string][]*flow.Alt{}
	for _, part := range parts {
		e := env.engine(verifyAtoms...)
		for k, v := range part.assume {
			e.Assume[k] = v
		}
		alts := feasible(e.EntryPaths(entry, flow.ModeErr))
		for _, u := range e.Undecided {
			r.Undecided("C12/ENGINE", u, "", "engine could not model: "+u)
		}
		altsOf[part.name] = alts
		env.noteAlts(alts)
		// fetch gating: Get call sites reachable in this partition
		type site struct {
			pos, url, getter string
			urlT, getterT    *flow.Term
		}
		var sites []site
		seenSite := map[string]bool{}
		e.Walk(entry, true, func(in ssa.Instruction, fr flow.Frame) {
			c, ok := in.(ssa.CallInstruction)
			if !ok || !c.Common().IsInvoke() || c.Common().Method.Name() != "Get" {
				return
			}
			if !strings.HasSuffix(types.TypeString(c.Common().Value.Type(), nil), "verify/trust.HTTPSGetter") {
				return
			}
			// calls made by a getter implementation to the getter it wraps are the environment
			if fr.Fn.Pkg != nil && strings.HasSuffix(fr.Fn.Pkg.Pkg.Path(), "verify/trust") {
				return
			}
			u := e.Eval(c.Common().Args[0], fr.Ctx)
			gt := e.Eval(c.Common().Value, fr.Ctx)
			k := env.P.Pos(c.Pos())
			if seenSite[k] {
				return
			}
			seenSite[k] = true
			sites = append(sites, site{k, u.String(), gt.String(), u, gt})
		})
		fmspc := pat.Field(pat.Res("0", pat.Call("pcs.PckCertificateExtensions", leaf)), "FMSPC")
		caM := func(t *flow.Term, b pat.Bind) bool {
			t = flow.StripConv(t)
			alts := []*flow.Term{t}
			if t.Op == flow.OpPhi {
				alts = t.Args
			}
			if t.Op == flow.OpIte {
				alts = t.Args[1:]
			}
			for _, a := range alts {
				if !(a.IsConst(`"platform"`) || a.IsConst(`"processor"`)) {
					return false
				}
			}
			return true
		}
		var qeRootDP pat.M = func(t *flow.Term, b pat.Bind) bool {
			t = flow.StripConv(t)
			return t.Op == flow.OpIndex && flow.StripConv(t.Args[0]).Op == flow.OpField && flow.StripConv(t.Args[0]).Name == "CRLDistributionPoints" &&
				strings.Contains(t.Args[0].String(), "pcs.SgxQeIdentityIssuerChainPhrase") && strings.Contains(t.Args[0].String(), "pcs.QeIdentityURL")
		}
		allowed := []struct {
			name string
			url  pat.M
			when bool
		}{
			{"tcbInfo", pat.Call("pcs.TcbInfoURL", fmspc), part.gc},
			{"qeIdentity", pat.Call("pcs.QeIdentityURL"), part.gc},
			{"pckCrl", pat.Call("pcs.PckCrlURL", caM), part.gc && part.cr},
			{"rootCaCrl", qeRootDP, part.gc && part.cr},
		}
		// options.Getter, defaulted only when nil to the getter DefaultHTTPSGetter builds
		// (a fresh RetryHTTPSGetter allocated in package verify/trust)
		defGetter := pat.Pred(func(t *flow.Term) bool {
			return t.Op == flow.OpNew && strings.Contains(t.Name, "verify/trust.RetryHTTPSGetter") && strings.Contains(t.Name, "@verify/trust.")
		})
		getterM := pat.OneOf(
			pat.Op(flow.OpIte, "", pat.Bin("==", pat.Is(fieldT(opt, "Getter")), pat.Const("nil")), defGetter, pat.Is(fieldT(opt, "Getter"))),
			pat.Op(flow.OpIte, "", pat.Bin("!=", pat.Is(fieldT(opt, "Getter")), pat.Const("nil")), pat.Is(fieldT(opt, "Getter")), defGetter))
		found := map[string]bool{}
		for _, s := range sites {
			matched := ""
			for _, al := range allowed {
				if al.url(s.urlT, pat.Bind{}) {
					matched = al.name
					if !al.when {
						matched = "!" + al.name
					}
				}
			}
			key := fmt.Sprintf("fetch@%s|%s", s.pos, part.name)
			switch {
			case matched == "":
				u := s.url
				if len(u) > 300 {
					u = u[:300] + "…"
				}
				r.Fail("C12/FETCH", key, s.pos, fmt.Sprintf("a Getter.Get call reachable under %s requests an unexpected URL: %s", part.name, u))
			case strings.HasPrefix(matched, "!"):
				r.Fail("C12/FETCH", key, s.pos, fmt.Sprintf("the %s endpoint is contacted under %s, where that fetch must not happen", matched[1:], part.name))
			case !getterM(s.getterT, pat.Bind{}):
				r.Fail("C12/FETCH", key, s.pos, "the fetch must go through options.Getter (default getter only when it is nil); receiver is "+s.getter)
			default:
				found[matched] = true
				r.OK("C12/FETCH", key, s.pos, "fetch of "+matched+" gated and addressed as stated")
			}
		}
		for _, al := range allowed {
			if al.when && !found[al.name] {
				r.Fail("C12/FETCH", "missing-"+al.name+"|"+part.name, env.P.Pos(entry.Pos()), fmt.Sprintf("no reachable fetch of %s under %s", al.name, part.name))
			}
		}
		if !part.gc && len(sites) == 0 {
			r.OK("C12/FETCH", "none|"+part.name, env.P.Pos(entry.Pos()), "no Getter.Get call site is reachable without GetCollateral")
		}
		if part.gc && part.cr {
			env.c12State(e, entry)
			// on every accept path the CA named in the PCK CRL request is the one the
			// leaf's issuer common name selects (whatever helper computes it)
			want := map[string]string{`"platform"`: `"Intel SGX PCK Platform CA"`, `"processor"`: `"Intel SGX PCK Processor CA"`}
			leafCN := pat.Field(pat.Field(leaf, "Issuer"), "CommonName")
			for i, a := range alts {
				key := fmt.Sprintf("path#%d", i)
				var ca *flow.Term
				if u := findTerm(a, pat.Call("pcs.PckCrlURL", pat.Any())); u != nil {
					ca = flow.StripConv(u.Args[0])
				}
				if ca == nil {
					continue // a missing request is reported by C12/FETCH and C05
				}
				issuer, ok := want[ca.Name]
				switch {
				case ca.Op != flow.OpConst || !ok:
					r.Fail("C12/CA", key, env.P.Pos(a.Ret.Pos()), "on an accept path the CA of the PCK CRL request is not a definite \"platform\" / \"processor\" choice: "+ca.String())
				case hasGate(a, func(t *flow.Term) bool { return pat.Bin("==", leafCN, pat.Const(issuer))(t, pat.Bind{}) }, false) == nil:
					r.Fail("C12/CA", key, env.P.Pos(a.Ret.Pos()), fmt.Sprintf("an accept path requests the PCK CRL of CA %s without having established that the common name of the PCK leaf certificate's issuer is %s", ca.Name, issuer))
				default:
					r.OK("C12/CA", key, env.P.Pos(a.Ret.Pos()), "PCK CRL requested for "+ca.Name+" on a path where the leaf's issuer CN is "+issuer)
				}
			}
		}
	}
	// monotonicity
	order := [][2]string{
		{"GetCollateral=false,CheckRevocations=false", "GetCollateral=true,CheckRevocations=false"},
		{"GetCollateral=true,CheckRevocations=false", "GetCollateral=true,CheckRevocations=true"},
		{"GetCollateral=false,CheckRevocations=false", "GetCollateral=false,CheckRevocations=true"},
	}
	gateSet := func(a *flow.Alt) map[string]bool {
		m := map[string]bool{}
		for _, g := range a.Gates {
			m[g.String()] = true
		}
		return m
	}
	for _, o := range order {
		lo, hi := altsOf[o[0]], altsOf[o[1]]
		okAll := true
		for hi_i, ah := range hi {
			hs := gateSet(ah)
			covered := false
			missing := ""
			for _, al := range lo {
				sub := true
				for g := range gateSet(al) {
					if !hs[g] {
						sub = false
						if missing == "" {
							missing = g
						}
						break
					}
				}
				if sub {
					covered = true
					break
				}
			}
			if !covered {
				okAll = false
				if len(missing) > 400 {
					missing = missing[:400] + "…"
				}
				r.Fail("C12/MONO", o[0]+" <= "+o[1], env.P.Pos(ah.Ret.Pos()), fmt.Sprintf("accept path #%d under %s does not enforce every gate of any accept path under %s (so a quote may be accepted with more checking but rejected with less); e.g. missing: %s", hi_i, o[1], o[0], missing))
				break
			}
		}
		if okAll {
			r.OK("C12/MONO", o[0]+" <= "+o[1], env.P.Pos(entry.Pos()), fmt.Sprintf("%d accept paths under the larger assignment each cover an accept path under the smaller", len(hi)))
		}
	}
	env.c12URLs()
	r.Floor("C12/FETCH", 1+2+4)
	r.Floor("C12/MONO", 3)
	r.Floor("C12/OPT-WRITE", 3)
	r.Floor("C12/OPT-ORDER", 3)
	r.Floor("C12/GLOBAL", 1)
	r.Floor("C12/CA", 2)
	r.Floor("C12/URL", 3)
}

// c12State: who writes a caller's Options, in what order, and which package
// state is touched on the verification path.
func (env *Env) c12State(e *flow.Engine, entry *ssa.Function) {
	r := env.R
	optType := "github.com/google/go-tdx-guest/verify.Options"
	// all stores into an Options value in the repository (non-test)
	type st struct {
		s     *ssa.Store
		field string
	}
	var stores []st
	for k, ss := range env.P.FieldSt {
		if k.Type != optType {
			continue
		}
		for _, s := range ss {
			stores = append(stores, st{s, k.Field})
		}
	}
	sort.Slice(stores, func(i, j int) bool { return stores[i].s.Pos() < stores[j].s.Pos() })
	perCall := map[string]*ssa.Store{}
	for _, x := range stores {
		fn := x.s.Parent()
		base := e.Eval(x.s.Addr.(*ssa.FieldAddr).X, e.UnknownCtx(fn))
		fresh := base.Op == flow.OpNew // initialising an Options the function itself allocated
		key := fmt.Sprintf("%s:Options.%s", load.FuncName(fn), x.field)
		where := env.P.Pos(x.s.Pos())
		if fresh {
			continue
		}
		if fn.Pkg == nil || fn.Pkg.Pkg.Path() != load.RepoPath("verify") {
			// other packages configuring an Options they own a pointer to (tools): caller-side configuration
			continue
		}
		if token.IsExported(x.field) {
			r.Fail("C12/OPT-WRITE", key, where, fmt.Sprintf("%s stores into the caller-visible field Options.%s: the verdict of later verifications through the same options value depends on this call (history dependence)", load.FuncName(fn), x.field))
			continue
		}
		r.OK("C12/OPT-WRITE", key, where, "per-call scratch field (unexported)")
		perCall[x.field] = x.s
	}
	// every load of an unexported Options field reachable from the entry is preceded, in the same call, by its store
	type ld struct {
		in    ssa.Instruction
		fr    flow.Frame
		field string
	}
	var loads []ld
	e.Walk(entry, true, func(in ssa.Instruction, fr flow.Frame) {
		u, ok := in.(*ssa.UnOp)
		if !ok || u.Op != token.MUL {
			return
		}
		fa, ok := u.X.(*ssa.FieldAddr)
		if !ok {
			return
		}
		k, ok := load.FieldKeyOf(fa.X.Type(), fa.Field)
		if !ok || k.Type != optType || token.IsExported(k.Field) {
			return
		}
		loads = append(loads, ld{in, fr, k.Field})
	})
	byField := map[string]int{}
	for _, l := range loads {
		s := perCall[l.field]
		key := fmt.Sprintf("%s:Options.%s", load.FuncName(l.in.Parent()), l.field)
		if s == nil {
			r.Fail("C12/OPT-ORDER", key, env.P.Pos(l.in.Pos()), "Options."+l.field+" is read on the verification path but never stored by the library: its value comes from an earlier call")
			continue
		}
		// find the frame of the storing function on the load's call string
		ok := false
		var at ssa.Instruction = l.in
		for c := l.fr.Ctx; c != nil; c = c.Parent {
			if c.Fn == s.Parent() {
				ok = dominatesInstr(s, at)
				break
			}
			if c.Call == nil {
				break
			}
			at = c.Call
		}
		if ok {
			byField[l.field]++
		} else {
			r.Fail("C12/OPT-ORDER", key, env.P.Pos(l.in.Pos()), fmt.Sprintf("Options.%s is read at %s without the store at %s having happened on every path of the same call: a value left by an earlier verification can be used", l.field, env.P.Pos(l.in.Pos()), env.P.Pos(s.Pos())))
		}
	}
	for f, n := range byField {
		r.OK("C12/OPT-ORDER", "Options."+f, env.P.Pos(perCall[f].Pos()), fmt.Sprintf("stored unconditionally before each of its %d reads in the same call", n))
	}
	// package-level state touched on the path
	badGlobal := map[string]string{}
	nGlobals := 0
	e.Walk(entry, true, func(in ssa.Instruction, fr flow.Frame) {
		for _, op := range in.Operands(nil) {
			g, ok := (*op).(*ssa.Global)
			if !ok || g.Pkg == nil || !strings.HasPrefix(g.Pkg.Pkg.Path(), load.RepoModule) {
				continue
			}
			nGlobals++
			name := strings.TrimPrefix(g.Pkg.Pkg.Path(), load.RepoModule+"/") + "." + g.Name()
			switch x := in.(type) {
			case *ssa.UnOp:
				if x.Op == token.MUL {
					// a read: the variable must be written only by initialisers
					for _, s := range env.P.GlobalSt[g] {
						if !strings.HasPrefix(s.Parent().Name(), "init") {
							badGlobal[name] = fmt.Sprintf("%s is read on the verification path and written at %s (outside package initialisation)", name, env.P.Pos(s.Pos()))
						}
					}
					continue
				}
			case *ssa.Store:
				if x.Addr == ssa.Value(g) {
					badGlobal[name] = fmt.Sprintf("%s is written on the verification path at %s", name, env.P.Pos(in.Pos()))
					continue
				}
			}
			// the variable's address escapes into a call / field access: mutable shared state (e.g. a cache)
			badGlobal[name] = fmt.Sprintf("package-level variable %s is used through its address on the verification path at %s (shared mutable state: the verdict can depend on earlier calls)", name, env.P.Pos(in.Pos()))
		}
	})
	if len(badGlobal) == 0 {
		r.OK("C12/GLOBAL", "no-shared-state", env.P.Pos(entry.Pos()), fmt.Sprintf("%d uses of package-level variables on the path, all reads of variables written only by initialisers", nGlobals))
	}
	names := make([]string, 0, len(badGlobal))
	for k := range badGlobal {
		names = append(names, k)
	}
	sort.Strings(names)
	for _, k := range names {
		r.Fail("C12/GLOBAL", k, "", badGlobal[k])
	}
}

// dominatesInstr: a is executed before b on every path reaching b (same function).
func dominatesInstr(a, b ssa.Instruction) bool {
	if a.Parent() != b.Parent() {
		return false
	}
	if a.Block() == b.Block() {
		ia, ib := -1, -1
		for i, in := range a.Block().Instrs {
			if in == a {
				ia = i
			}
			if in == b {
				ib = i
			}
		}
		return ia < ib
	}
	return a.Block().Dominates(b.Block())
}

// c12URLs: the three URL builders.
func (env *Env) c12URLs() {
	r := env.R
	e := env.engine()
	want := []struct{ fn, format, base, baseName string }{
		{"TcbInfoURL", `"%s/tcb?fmspc=%s"`, `"https://api.trustedservices.intel.com/tdx/certification/v4"`, "TdxBaseURL"},
		{"QeIdentityURL", `"%s/qe/identity"`, `"https://api.trustedservices.intel.com/tdx/certification/v4"`, "TdxBaseURL"},
		{"PckCrlURL", `"%s/pckcrl?ca=%s&encoding=der"`, `"https://api.trustedservices.intel.com/sgx/certification/v4"`, "SgxBaseURL"},
	}
	for _, w := range want {
		fn := env.fn("pcs", w.fn)
		if fn == nil {
			continue
		}
		alts := e.EntryPaths(fn, flow.ModeAll)
		if len(alts) != 1 {
			r.Undecided("C12/URL", w.fn, env.P.Pos(fn.Pos()), "URL builder must have a single return")
			continue
		}
		// the returned string as literal text with holes, however it is put together
		// (fmt.Sprintf with %s verbs, + concatenation)
		format, _ := strconv.Unquote(w.format)
		base, _ := strconv.Unquote(w.base)
		var wantParts []string
		segs := strings.Split(format, "%s")
		text := segs[0]
		if len(segs) > 1 {
			text += base + segs[1] // the first verb is the base URL
		}
		wantParts = append(wantParts, text)
		for i := range fn.Params {
			wantParts = append(wantParts, param(fn, i).String())
			if i+2 < len(segs) && segs[i+2] != "" {
				wantParts = append(wantParts, segs[i+2])
			}
		}
		got, okParts := stringParts(alts[0].Results[0])
		if okParts && strings.Join(got, "\x00") == strings.Join(wantParts, "\x00") {
			r.OK("C12/URL", w.fn, env.P.Pos(fn.Pos()), "returns "+w.format+" with "+w.baseName+" and the argument")
		} else {
			r.Fail("C12/URL", w.fn, env.P.Pos(fn.Pos()), fmt.Sprintf("pcs.%s must return fmt.Sprintf(%s, %s=%s, argument); returns %s", w.fn, w.format, w.baseName, w.base, alts[0].Results[0]))
		}
	}
}

// stringParts flattens a string-valued term into literal text and holes:
// fmt.Sprintf with only %s verbs, + concatenation and literals. Adjacent
// literals are merged; a hole is the canonical string of its term.
func stringParts(t *flow.Term) ([]string, bool) {
	type part struct {
		lit  bool
		text string
	}
	var flat func(t *flow.Term) ([]part, bool)
	flat = func(t *flow.Term) ([]part, bool) {
		t = flow.StripConv(t)
		switch {
		case t.Op == flow.OpConst && strings.HasPrefix(t.Name, "\""):
			s, err := strconv.Unquote(t.Name)
			if err != nil {
				return nil, false
			}
			return []part{{true, s}}, true
		case t.Op == flow.OpBin && t.Name == "+" && len(t.Args) == 2:
			a, ok1 := flat(t.Args[0])
			b, ok2 := flat(t.Args[1])
			return append(a, b...), ok1 && ok2
		case t.Op == flow.OpCall && t.Name == "fmt.Sprintf" && len(t.Args) == 2:
			f := flow.StripConv(t.Args[0])
			if f.Op != flow.OpConst {
				return nil, false
			}
			format, err := strconv.Unquote(f.Name)
			if err != nil {
				return nil, false
			}
			args, ok := flow.SeqElems(t.Args[1])
			segs := strings.Split(format, "%s")
			if !ok || len(segs) != len(args)+1 || strings.Contains(strings.Join(segs, ""), "%") {
				return nil, false
			}
			var out []part
			for i, sg := range segs {
				if sg != "" {
					out = append(out, part{true, sg})
				}
				if i < len(args) {
					sub, ok := flat(args[i])
					if !ok {
						return nil, false
					}
					out = append(out, sub...)
				}
			}
			return out, true
		}
		return []part{{false, t.String()}}, true
	}
	ps, ok := flat(t)
	if !ok {
		return nil, false
	}
	var out []string
	lastLit := false
	for _, p := range ps {
		if p.lit && lastLit {
			out[len(out)-1] += p.text
			continue
		}
		out = append(out, p.text)
		lastLit = p.lit
	}
	return out, true
}
