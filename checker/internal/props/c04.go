package props

import (
	"fmt"
	"strings"

	"golang.org/x/tools/go/ssa"

	"tdxlint/internal/flow"
	"tdxlint/internal/load"
	"tdxlint/internal/pat"
)

func init() { Registry["C04"] = C04 }

// iterOf matches an induction term of any loop with the given init and step 1.
func iterFrom(init pat.M, loop *string) pat.M {
	return func(t *flow.Term, b pat.Bind) bool {
		t = flow.StripConv(t)
		if t.Op != flow.OpIter || len(t.Args) != 2 || !t.Args[1].IsConst("1") || !init(t.Args[0], b) {
			return false
		}
		id := t.Name
		if i := strings.Index(id, "/"); i >= 0 {
			id = id[:i]
		}
		if loop != nil {
			if *loop == "" {
				*loop = id
			} else if *loop != id {
				return false
			}
		}
		return true
	}
}

// elemOf matches coll[i] for the range index i of one loop.
func elemOf(coll pat.M, loop *string) pat.M {
	return pat.Op(flow.OpIndex, "", coll, iterFrom(pat.Const("0"), loop))
}

// tcbDoc returns the term of the decoded signed TCB Info / QE identity on alt a.
func signedDoc(a *flow.Alt, d collateralDoc) *flow.Term {
	dt, why := resolveDoc(a, d)
	if why != "" {
		return nil
	}
	return dt.decRaw
}

// C04: TCB status follows Intel's algorithm.
func C04(env *Env) {
	r := env.R
	r.Explanation = "On every accept path with GetCollateral: the FMSPC (case-insensitive), PCE-ID, MRSIGNERSEAM and masked SEAMATTRIBUTES gates compare the PCK extension / quote body with the signed TCB Info; the platform level is the element selected by a first-match range loop over tcbInfo.tcbLevels whose selection gates are exactly  SGX component SVNs (index-wise, equal lengths), PCE SVN and TDX component SVNs from index 2-or-0 (chosen by TEE_TCB_SVN[1] > 0) each 'level <= platform'; that level's status is UpToDate; and whenever TEE_TCB_SVN[1] > 0 the identity TDX_<hex(TEE_TCB_SVN[1])> is selected by ID equality, its first level with isvsvn <= TEE_TCB_SVN[0] is selected and is UpToDate as well (paths lacking that gate are shown contradictory under TEE_TCB_SVN[1] > 0 by unit propagation). First-match: in each selector loop an element is skipped only through the failing edge of a selection gate. Reporting API: both selector errors flow into the returned error."
	r.TrustedBase = []string{"strings.EqualFold, bytes.Equal, encoding/hex", "go/ssa, go/types"}
	r.NotCovered = []string{"numeric evaluation of SVN vectors: only shape, sides, operators, indices and order of the comparisons are decided"}
	entry := env.fn("verify", "TdxQuote")
	if entry == nil {
		return
	}
	q := quoteOf(entry)
	tee := pat.Is(fieldT(q.Body, "TeeTcbSvn"))
	leaf := pemCert(pat.Is(q.Chain), 0)
	ext := pat.Res("0", pat.Call("pcs.PckCertificateExtensions", leaf))
	docs := collateralDocs(q)
	for _, part := range verifyPartitions(entry) {
		if !part.gc {
			continue
		}
		e := env.engine(verifyAtoms...)
		for k, v := range part.assume {
			e.Assume[k] = v
		}
		alts := feasible(e.EntryPaths(entry, flow.ModeErr))
		for _, u := range e.Undecided {
			r.Undecided("C04/ENGINE", u, "", "engine could not model: "+u)
		}
		if len(alts) == 0 {
			r.Undecided("C04/PATHS", part.name, env.P.Pos(entry.Pos()), "no success alternative found for "+part.name)
			continue
		}
		for ai, a := range alts {
			pn := fmt.Sprintf("%s|alt%d", part.name, ai)
			doc := signedDoc(a, docs[0])
			if doc == nil {
				r.Fail("C04/DOC", pn, env.P.Pos(a.Ret.Pos()), "accept path does not fetch TCB Info with the expected URL")
				continue
			}
			ti := pat.Is(doc)
			var lp string
			lvl := elemOf(pat.Field(ti, "TcbLevels"), &lp)
			var cl, tl string
			cpuI := iterFrom(pat.Const("0"), &cl)
			ver := pat.Op(flow.OpIndex, "", tee, pat.Const("1"))
			start := pat.OneOf(
				pat.Op(flow.OpIte, "", pat.OneOf(pat.Bin("<", pat.Const("0"), ver), pat.Bin("!=", pat.Const("0"), ver), pat.Bin("<=", pat.Const("1"), ver)), pat.Const("2"), pat.Const("0")),
				pat.Op(flow.OpIte, "", pat.Bin("==", pat.Const("0"), ver), pat.Const("0"), pat.Const("2")))
			tdxI := iterFrom(start, &tl)
			// the same loop written over all indices with the skipped prefix passed over:
			// for every i from 0: start <= i implies the comparison
			tdx0 := iterFrom(pat.Const("0"), &tl)
			tdxSkipForm := pat.Op("implies", "", pat.Bin("<=", start, tdx0),
				pat.Bin("<=", pat.Field(pat.Op(flow.OpIndex, "", pat.Field(lvl, "Tcb", "TdxTcbcomponents"), tdx0), "Svn"), pat.Op(flow.OpIndex, "", tee, tdx0)))
			mask := pat.Field(ti, "TdxModule", "AttributesMask", "Bytes")
			seam := pat.Is(fieldT(q.Body, "SeamAttributes"))
			specs := []gateSpec{
				{rule: "ID", name: "fmspc", m: pat.OneOf(pat.Call("strings.EqualFold", pat.Field(ext, "FMSPC"), pat.Field(ti, "Fmspc")), pat.Call("strings.EqualFold", pat.Field(ti, "Fmspc"), pat.Field(ext, "FMSPC"))), expect: "strings.EqualFold(PckExtensions.FMSPC, tcbInfo.fmspc)"},
				{rule: "ID", name: "pceid", m: pat.Bin("==", pat.Field(ext, "PCEID"), pat.Field(ti, "PceID")), expect: "PckExtensions.PCEID == tcbInfo.pceId"},
				{rule: "ID", name: "mrsignerseam", m: pat.OneOf(pat.Call("bytes.Equal", pat.Field(ti, "TdxModule", "Mrsigner", "Bytes"), pat.Is(fieldT(q.Body, "MrSignerSeam"))), pat.Call("bytes.Equal", pat.Is(fieldT(q.Body, "MrSignerSeam")), pat.Field(ti, "TdxModule", "Mrsigner", "Bytes"))), expect: "bytes.Equal(tcbInfo.tdxModule.mrsigner, quote MRSIGNERSEAM)"},
				{rule: "ID", name: "seamattributes-len", m: pat.Bin("==", pat.Len(mask), pat.Len(seam)), expect: "len(attributesMask) == len(SEAMATTRIBUTES)"},
				{rule: "ID", name: "seamattributes", m: func(t *flow.Term, b pat.Bind) bool {
					masked := pat.OneOf(pat.Op(flow.OpElemOp, "&", mask, seam), pat.Op(flow.OpElemOp, "&", seam, mask))
					attrs := pat.Field(ti, "TdxModule", "Attributes", "Bytes")
					return pat.OneOf(pat.Call("bytes.Equal", attrs, masked), pat.Call("bytes.Equal", masked, attrs))(t, b)
				}, expect: "bytes.Equal(tcbInfo.tdxModule.attributes, attributesMask & SEAMATTRIBUTES)"},
				// platform level selection
				{rule: "SEL/platform", name: "sgx-len", m: pat.Bin("==", pat.Len(pat.Field(ext, "TCB", "CPUSvnComponents")), pat.Len(pat.Field(lvl, "Tcb", "SgxTcbcomponents"))), expect: "len(PCK CPUSVN components) == len(level.sgxtcbcomponents)"},
				{rule: "SEL/platform", name: "sgx-components", forall: true, m: pat.Bin("<=", pat.Field(pat.Op(flow.OpIndex, "", pat.Field(lvl, "Tcb", "SgxTcbcomponents"), cpuI), "Svn"), pat.Op(flow.OpIndex, "", pat.Field(ext, "TCB", "CPUSvnComponents"), cpuI)), expect: "for every i: level.sgxtcbcomponents[i].svn <= PCK CPUSVN component[i]"},
				{rule: "SEL/platform", name: "pcesvn", m: pat.Bin("<=", pat.Field(lvl, "Tcb", "Pcesvn"), pat.Field(ext, "TCB", "PCESvn")), expect: "level.pcesvn <= PCK PCESVN"},
				{rule: "SEL/platform", name: "tdx-len", m: pat.Bin("==", pat.Len(tee), pat.Len(pat.Field(lvl, "Tcb", "TdxTcbcomponents"))), expect: "len(TEE_TCB_SVN) == len(level.tdxtcbcomponents)"},
				{rule: "SEL/platform", name: "tdx-components", forall: true, m: pat.OneOf(pat.Bin("<=", pat.Field(pat.Op(flow.OpIndex, "", pat.Field(lvl, "Tcb", "TdxTcbcomponents"), tdxI), "Svn"), pat.Op(flow.OpIndex, "", tee, tdxI)), tdxSkipForm), expect: "for every i from (TEE_TCB_SVN[1] > 0 ? 2 : 0): level.tdxtcbcomponents[i].svn <= TEE_TCB_SVN[i]"},
				{rule: "VERDICT", name: "platform-status", m: pat.Bin("==", pat.Field(lvl, "TcbStatus"), pat.Const(`"UpToDate"`)), expect: "status of the selected platform TCB level == UpToDate"},
			}
			env.requireGates(e, []*flow.Alt{a}, pn, specs)
			// the inner loops run over the whole component vectors
			// (either vector of the pair bounds the loop: their lengths are gated equal above)
			env.c04FullRange(a, cl, pat.OneOf(pat.Len(pat.Field(ext, "TCB", "CPUSvnComponents")), pat.Len(pat.Field(lvl, "Tcb", "SgxTcbcomponents"))), "sgx-components", pn)
			env.c04FullRange(a, tl, pat.OneOf(pat.Len(tee), pat.Len(pat.Field(lvl, "Tcb", "TdxTcbcomponents"))), "tdx-components", pn)
			if lp != "" {
				env.firstMatch(e, lp, "platform|"+pn)
				var allowed []pat.M
				for _, sp := range specs[5:] {
					allowed = append(allowed, sp.m)
				}
				env.exactSelection(a, lp, allowed, "platform|"+pn)
			}
			// TDX module level
			var mp, ml string
			ident := elemOf(pat.Field(ti, "TdxModuleIdentities"), &mp)
			mlvl := elemOf(pat.Field(ident, "TcbLevels"), &ml)
			idTerm := pat.Bin("+", pat.Const(`"TDX_"`), pat.Call("encoding/hex.EncodeToString", pat.Slice(tee, "1", "2")))
			modSpecs := []gateSpec{
				{rule: "SEL/module", name: "identity-id", m: pat.Bin("==", idTerm, pat.Field(ident, "ID")), expect: `identity.id == "TDX_" + hex(TEE_TCB_SVN[1:2])`},
				{rule: "SEL/module", name: "isvsvn", m: pat.Bin("<=", pat.Field(mlvl, "Tcb", "Isvsvn"), pat.Conv(pat.Op(flow.OpIndex, "", tee, pat.Const("0")))), expect: "module level.isvsvn <= TEE_TCB_SVN[0]"},
				{rule: "VERDICT", name: "module-status", m: pat.Bin("==", pat.Field(mlvl, "TcbStatus"), pat.Const(`"UpToDate"`)), expect: "status of the selected TDX module level == UpToDate"},
			}
			teeGT := flow.T(flow.OpBin, "<", flow.C("0"), flow.T(flow.OpIndex, "", fieldT(q.Body, "TeeTcbSvn"), flow.C("1")))
			teeGT.Args[1].Args[1] = flow.C("1")
			hasMod := hasGate(a, func(t *flow.Term) bool { return modSpecs[2].m(t, pat.Bind{}) }, false) != nil
			switch {
			case hasMod:
				env.requireGates(e, []*flow.Alt{a}, pn, modSpecs)
				if mp != "" {
					env.firstMatch(e, mp, "module-identity|"+pn)
				}
				if ml != "" {
					env.firstMatch(e, ml, "module-level|"+pn)
				}
				if mp != "" {
					env.exactSelection(a, mp, []pat.M{modSpecs[0].m, modSpecs[1].m, modSpecs[2].m}, "module|"+pn)
				}
			case unsat(a, teeGT):
				r.OK("C04/VERDICT", "module-status|"+pn, env.P.Pos(a.Ret.Pos()), "this accept path is contradictory under TEE_TCB_SVN[1] > 0 (unit propagation), so it is taken only when no TDX module level applies")
			default:
				r.Fail("C04/VERDICT", "module-status|"+pn, env.P.Pos(a.Ret.Pos()), "an accept path compatible with TEE_TCB_SVN[1] > 0 does not require the selected TDX module identity level to be UpToDate",
					"call string: "+strings.Join(a.Ctx.CallString(), " > "))
			}
		}
	}
	env.c04Reporting()
	// the platform's FMSPC, PCE-ID and SVN vector the gates above compare are the
	// values pcs.PckCertificateExtensions extracts per OID (C13's rules)
	env.via("C13", C13)
	env.decodedReadOnly("C04/DECODED-RO", "TcbInfo")
	r.Floor("C04/DECODED-RO", 4)
	r.Floor("C04/ID", 10)
	r.Floor("C04/SEL/platform", 10)
	r.Floor("C04/SEL/module", 2)
	r.Floor("C04/VERDICT", 4)
	r.Floor("C04/FIRST", 3)
	r.Floor("C04/ERRFLOW", 4)
	r.Floor("C04/EXACT", 2)
}

// c04FullRange: the forall gate of loop `loop` ranges up to bound (the loop's
// exit test is i < len(...)).
func (env *Env) c04FullRange(a *flow.Alt, loop string, bound pat.M, name, part string) {
	if loop == "" {
		return
	}
	for _, g := range a.Gates {
		if g.Loop == loop && g.Dom != nil {
			it := iterFrom(pat.Any(), nil)
			if pat.Bin("<", it, bound)(g.Dom, pat.Bind{}) {
				env.R.OK("C04/SEL/platform", name+"-range|"+part, env.P.Pos(g.Pos), "loop continues while i < len(vector)")
				return
			}
			env.R.Fail("C04/SEL/platform", name+"-range|"+part, env.P.Pos(g.Pos), "the component comparison loop must run while i < len(component vector); continues while "+g.Dom.String())
			return
		}
	}
}

// firstMatch: in the selector loop an element is passed over only through a
// failing selection test, and the loop visits elements in order from 0.
func (env *Env) firstMatch(e *flow.Engine, loopID, construct string) {
	env.firstMatchRule(e, loopID, construct, "C04/FIRST")
}

func (env *Env) firstMatchRule(e *flow.Engine, loopID, construct, ruleID string) {
	r := env.R
	i := strings.LastIndex(loopID, "#L")
	if i < 0 {
		return
	}
	var fn *ssa.Function
	for _, f := range env.P.Funcs {
		if load.FuncName(f) == loopID[:i] {
			fn = f
		}
	}
	if fn == nil {
		r.Undecided(ruleID, construct, "", "selector loop "+loopID+" not found")
		return
	}
	r.Functions[load.FuncName(fn)] = true
	g := e.GraphOf(fn, e.UnknownCtx(fn))
	var lp *flow.Loop
	for _, l := range g.Loops {
		if l.ID == loopID {
			lp = l
		}
	}
	if lp == nil {
		r.Undecided(ruleID, construct, env.P.Pos(fn.Pos()), "selector loop "+loopID+" not found in "+load.FuncName(fn))
		return
	}
	// the in-loop selecting returns: return blocks reachable from the body that are not in the body
	// An element is skipped iff control returns to the head. Remove, from every
	// If block in the body, the edge that cannot reach a success return of fn;
	// then no latch may be reachable from the head's body successor.
	succRet := map[int]bool{}
	for _, b := range fn.Blocks {
		if ret, ok := b.Instrs[len(b.Instrs)-1].(*ssa.Return); ok && !e.RetIsFail(ret) && g.Reach[b.Index] {
			// selecting return: reachable from the loop body without passing the head again
			succRet[b.Index] = true
		}
	}
	canSel := make([]bool, len(fn.Blocks))
	for t := range succRet {
		rr := g.CanReach(t, lp.Head)
		for k, v := range rr {
			if v {
				canSel[k] = true
			}
		}
		canSel[t] = true
	}
	// traverse from the body entry, following only edges that keep a selecting return reachable... inverted:
	// follow all edges except the failing ones; if a latch is reachable, some element is skipped without a failed test.
	head := fn.Blocks[lp.Head]
	var bodyEntry int = -1
	for _, s := range g.Succ[lp.Head] {
		if lp.Body[s] {
			bodyEntry = s
		}
	}
	if bodyEntry < 0 {
		r.Undecided(ruleID, construct, env.P.Pos(head.Instrs[0].Pos()), "selector loop has no body")
		return
	}
	seen := map[int]bool{}
	stack := []int{bodyEntry}
	skipped := false
	for len(stack) > 0 {
		b := stack[len(stack)-1]
		stack = stack[:len(stack)-1]
		if seen[b] || !lp.Body[b] {
			continue
		}
		seen[b] = true
		if b == lp.Head {
			skipped = true
			break
		}
		succs := g.Succ[b]
		if len(succs) == 2 {
			s0, s1 := succs[0], succs[1]
			// a test whose one side can still select and whose other side cannot: the latter is the failing edge
			switch {
			case canSel[s0] && !canSel[s1]:
				stack = append(stack, s0)
				continue
			case canSel[s1] && !canSel[s0]:
				stack = append(stack, s1)
				continue
			}
		}
		for _, s := range succs {
			if s == lp.Head {
				skipped = true
			}
			stack = append(stack, s)
		}
		if skipped {
			break
		}
	}
	where := env.P.Pos(fn.Pos())
	if skipped {
		r.Fail(ruleID, construct, where, "in selector loop "+loopID+" an element can be passed over without any selection test failing (not a first-match scan)")
		return
	}
	r.OK(ruleID, construct, where, "range loop from index 0; an element is skipped only through a failing selection test; the first passing element is returned")
}

// exactSelection: every gate on the accept path that depends on the element
// selected by loop `loopID` is one of the stated selection / verdict gates, a
// loop-bound test or a status test against a constant. An extra condition
// (skipping levels by date, advisory, ...) changes which level is "first".
func (env *Env) exactSelection(a *flow.Alt, loopID string, allowed []pat.M, construct string) {
	env.exactSelectionRule(a, loopID, allowed, construct, "C04/EXACT")
}

func (env *Env) exactSelectionRule(a *flow.Alt, loopID string, allowed []pat.M, construct, ruleID string) {
	r := env.R
	mentions := func(t *flow.Term) bool {
		return t.Contains(func(x *flow.Term) bool {
			return x.Op == flow.OpIter && (x.Name == loopID || strings.HasPrefix(x.Name, loopID+"/"))
		})
	}
	n := 0
	for _, g := range a.Gates {
		if g.Call != nil || !mentions(g.Pred) {
			continue
		}
		n++
		ok := false
		for _, m := range allowed {
			if m(g.Pred, pat.Bind{}) {
				ok = true
				break
			}
		}
		if !ok {
			p := g.Pred
			switch {
			case p.Op == "implies":
				ok = true
			case p.Op == flow.OpBin && (p.Name == "<" || p.Name == "<=") && (flow.StripConv(p.Args[0]).Op == flow.OpIter || flow.StripConv(p.Args[1]).Op == flow.OpIter):
				ok = true // loop bound test
			case p.Op == flow.OpBin && (p.Name == "==" || p.Name == "!=") && (isStatusOfElem(p.Args[0]) && p.Args[1].Op == flow.OpConst || isStatusOfElem(p.Args[1]) && p.Args[0].Op == flow.OpConst):
				ok = true // status compared with a constant (the verdict rule decides which)
			case p.Op == flow.OpBin && p.Name == "!=" && (foundPointer(p.Args[0]) && p.Args[1].IsConst("nil") || foundPointer(p.Args[1]) && p.Args[0].IsConst("nil")):
				ok = true // "the lookup found an element": &coll[i] or nil, tested against nil
			}
		}
		if !ok {
			s := g.Pred.String()
			if len(s) > 400 {
				s = s[:400] + "…"
			}
			r.Fail(ruleID, construct, env.P.Pos(g.Pos), "the level selected by loop "+loopID+" is subject to a condition the algorithm does not have: "+s)
			return
		}
	}
	if n > 0 {
		r.OK(ruleID, construct, "", fmt.Sprintf("all %d element-dependent gates are stated selection/verdict gates", n))
	}
}

func isStatusOfElem(t *flow.Term) bool {
	t = flow.StripConv(t)
	return t.Op == flow.OpField && t.Name == "TcbStatus"
}

// c04Reporting: SupportedTcbLevelsFromCollateral returns both selector errors.
func (env *Env) c04Reporting() {
	r := env.R
	fn := env.fn("verify", "SupportedTcbLevelsFromCollateral")
	if fn == nil {
		return
	}
	want := map[string]bool{"verify.readTcbInfoTcbStatus": false, "verify.readQeTcbStatus": false}
	for _, b := range fn.Blocks {
		for _, in := range b.Instrs {
			c, ok := in.(*ssa.Call)
			if !ok {
				continue
			}
			cal := c.Call.StaticCallee()
			if cal == nil {
				continue
			}
			name := load.FuncName(cal)
			if _, ok := want[name]; !ok {
				continue
			}
			want[name] = true
			// the error result
			var errv ssa.Value
			for _, ref := range *c.Referrers() {
				if ex, ok := ref.(*ssa.Extract); ok && isErrType(ex.Type()) {
					errv = ex
				}
			}
			where := env.P.Pos(c.Pos())
			if errv == nil {
				r.Fail("C04/ERRFLOW", name, where, "the error result of "+name+" is discarded in SupportedTcbLevelsFromCollateral")
				continue
			}
			if flowsToReturn(errv) {
				r.OK("C04/ERRFLOW", name, where, "selector error flows into the returned error")
			} else {
				r.Fail("C04/ERRFLOW", name, where, "the error of "+name+" never reaches the error returned by SupportedTcbLevelsFromCollateral: a failed level selection is reported as an empty level with a nil error")
			}
		}
	}
	// path form: a nil error is returned only when both selectors succeeded
	e := env.engine(verifyAtoms...)
	alts := e.EntryPaths(fn, flow.ModeErr)
	if len(alts) == 0 {
		r.Undecided("C04/ERRFLOW", "paths", env.P.Pos(fn.Pos()), "no success alternative of SupportedTcbLevelsFromCollateral found")
	}
	for name := range want {
		okAll := len(alts) > 0
		for _, a := range alts {
			found := false
			for _, g := range a.Gates {
				if g.Call != nil && g.Pred.Op == "ok" && g.Pred.Name == name {
					found = true
				}
			}
			if !found {
				okAll = false
				r.Fail("C04/ERRFLOW", name+"#nil-only-on-success", env.P.Pos(a.Ret.Pos()), "SupportedTcbLevelsFromCollateral can return a nil error although "+name+" failed (a success path is not gated by that call's success)")
				break
			}
		}
		if okAll {
			r.OK("C04/ERRFLOW", name+"#nil-only-on-success", env.P.Pos(fn.Pos()), fmt.Sprintf("every one of the %d nil-error return paths passes through the success of %s", len(alts), name))
		}
	}
	for name, seen := range want {
		if !seen {
			r.Fail("C04/ERRFLOW", name, env.P.Pos(fn.Pos()), "SupportedTcbLevelsFromCollateral no longer calls "+name)
		}
	}
}

// foundPointer: the result of a lookup helper — the address of an element on
// the found paths, nil otherwise.
func foundPointer(t *flow.Term) bool {
	t = flow.StripConv(t)
	if t.Op != flow.OpPhi && t.Op != flow.OpIte {
		return false
	}
	args := t.Args
	if t.Op == flow.OpIte {
		args = t.Args[1:]
	}
	hasAddr := false
	for _, a := range args {
		a = flow.StripConv(a)
		switch {
		case a.IsConst("nil"):
		case a.Op == flow.OpAddr:
			hasAddr = true
		default:
			return false
		}
	}
	return hasAddr
}
