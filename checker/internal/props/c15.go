package props

import (
	"fmt"
	"go/types"
	"os"
	"strings"

	"golang.org/x/tools/go/ssa"

	"tdxlint/internal/flow"
	"tdxlint/internal/load"
	"tdxlint/internal/pat"
)

func init() { Registry["C15"] = C15 }

func isNewOf(typ string) pat.M {
	return pat.Pred(func(t *flow.Term) bool {
		t = flow.StripConv(t)
		return t.Op == flow.OpNew && strings.HasPrefix(t.Name, typ+"#")
	})
}

// C15: the guest client relays device data exactly; every device failure is an error.
func C15(env *Env) {
	r := env.R
	r.Explanation = "getRawQuoteViaDevice, with the Device modelled as an opaque environment that may overwrite everything reachable from its request argument: request 1 is Ioctl(IocTdxGetReport, &req) after a full-width copy of the caller's 64 bytes into req.ReportData; request 2 is Ioctl(IocTdxGetQuote, &TdxQuoteReq{Buffer: hdr, Length: ReqBufSize}) after hdr.InLen = 1024 and a copy of the first 1024 bytes of the TD report the device wrote by request 1 into hdr.Data; the success return requires err == nil and result == success for both requests and, loaded after request 2 from that same header, Status == 0, OutLen != 0 and OutLen <= ReqBufSize (== len(hdr.Data)), and returns exactly hdr.Data[:hdr.OutLen]. Provider path: when IsSupported() == nil the two results of GetRawQuote(reportData) are returned unmodified, otherwise the device fallback is the result; GetRawQuote dispatches by type; GetQuote parses exactly the raw bytes and propagates errors."
	r.TrustedBase = []string{"the Device / QuoteProvider implementations (environment)", "go/ssa, go/types"}
	r.NotCovered = []string{"behaviour of the real ioctl; contents the device writes"}
	env.c15Device()
	env.c15Provider()
	env.c15Dispatch()
	// no device outcome crashes the client
	env.safetyOf("C15", "client", "GetRawQuote")
	env.safetyOf("C15", "client", "GetQuote", "client.GetRawQuote")
	if f, g := env.fn("client", "GetRawQuote"), env.fn("client", "GetQuote"); f != nil && g != nil {
		env.errorsNotLost("C15/ERRFLOW", inPackages(env.calleesBelow(f, g), "client", "client/linuxabi"))
	}
	r.Floor("C15/ERRFLOW", 5)
	r.Floor("C15/B1", 3)
	r.Floor("C15/REQ1", 3)
	r.Floor("C15/REQ2", 6)
	r.Floor("C15/GATE", 7)
	r.Floor("C15/RESULT", 2)
	r.Floor("C15/PROVIDER", 3)
	r.Floor("C15/DISPATCH", 4)
}

func (env *Env) c15Device() {
	r := env.R
	fn := env.fn("client", "getRawQuoteViaDevice")
	if fn == nil {
		return
	}
	e := env.engine()
	d, rd := param(fn, 0), param(fn, 1)
	labi := "client/linuxabi"
	iocReport := env.repoConst(labi, "IocTdxGetReport")
	iocQuote := env.repoConst(labi, "IocTdxGetQuote")
	bufSize := env.repoConst(labi, "ReqBufSize")
	reportSize := env.repoConst(labi, "TdReportSize")
	okCode := env.repoConst(labi, "TdxAttestSuccess")
	req1 := isNewOf(labi + ".TdxReportReq")
	req2 := isNewOf(labi + ".TdxQuoteReq")
	hdr := isNewOf(labi + ".TdxQuoteHdr")
	io1 := pat.Invoke("Ioctl", pat.Is(d), pat.Const(iocReport), req1)
	io2 := pat.Invoke("Ioctl", pat.Is(d), pat.Const(iocQuote), req2)
	alts := e.EntryPaths(fn, flow.ModeErr)
	if len(alts) == 0 {
		r.Undecided("C15/GATE", "paths", env.P.Pos(fn.Pos()), "no success alternative")
		return
	}
	// locate the two calls
	var c1, c2 *ssa.Call
	e.Walk(fn, true, func(in ssa.Instruction, fr flow.Frame) {
		c, ok := in.(*ssa.Call)
		if !ok || !c.Call.IsInvoke() || c.Call.Method.Name() != "Ioctl" {
			return
		}
		t := e.Eval(c, fr.Ctx)
		if io1(t, pat.Bind{}) {
			c1 = c
		}
		if io2(t, pat.Bind{}) {
			c2 = c
		}
	})
	if c1 == nil {
		r.Fail("C15/REQ1", "ioctl", env.P.Pos(fn.Pos()), "no Ioctl(IocTdxGetReport, &TdxReportReq{}) request on the device path")
		return
	}
	r.OK("C15/REQ1", "ioctl", env.P.Pos(c1.Pos()), "Ioctl(IocTdxGetReport, &req)")
	if c2 == nil {
		r.Fail("C15/REQ2", "ioctl", env.P.Pos(fn.Pos()), "no Ioctl(IocTdxGetQuote, &TdxQuoteReq{}) request on the device path")
		return
	}
	r.OK("C15/REQ2", "ioctl", env.P.Pos(c2.Pos()), "Ioctl(IocTdxGetQuote, &quoteReq)")
	site2 := env.P.Pos(c2.Pos())
	site1 := env.P.Pos(c1.Pos())
	outOf := func(site string, obj pat.M) pat.M {
		return func(t *flow.Term, b pat.Bind) bool {
			t = flow.StripConv(t)
			return t.Op == "out" && strings.HasPrefix(t.Name, site+"#") && len(t.Args) == 1 && obj(t.Args[0], b)
		}
	}
	hdrOut := outOf(site2, hdr)
	env.requireGates(e, alts, "", []gateSpec{
		{rule: "GATE", name: "report-err", m: pat.Bin("==", pat.Res("1", io1), pat.Const("nil")), expect: "report request error == nil"},
		{rule: "GATE", name: "report-result", m: pat.Bin("==", pat.Res("0", io1), pat.Const(okCode)), expect: "report request result == TdxAttestSuccess"},
		{rule: "GATE", name: "quote-err", m: pat.Bin("==", pat.Res("1", io2), pat.Const("nil")), expect: "quote request error == nil"},
		{rule: "GATE", name: "quote-result", m: pat.Bin("==", pat.Res("0", io2), pat.Const(okCode)), expect: "quote request result == TdxAttestSuccess"},
		{rule: "GATE", name: "status", m: pat.Bin("==", pat.Field(hdrOut, "Status"), pat.Const("0")), expect: "header Status (loaded after the quote request) == 0"},
		{rule: "GATE", name: "outlen-nonzero", m: pat.NonZero(pat.Field(hdrOut, "OutLen")), expect: "header OutLen != 0"},
		{rule: "GATE", name: "outlen-max", m: pat.Bin("<=", pat.Field(hdrOut, "OutLen"), pat.Const(bufSize)), expect: "header OutLen <= ReqBufSize"},
	})
	for _, a := range alts {
		want := pat.Slice(pat.Field(hdrOut, "Data"), "", "")
		res := flow.StripConv(a.Results[0])
		ok := res.Op == flow.OpSlice && pat.Field(hdrOut, "Data")(res.Args[0], pat.Bind{}) && (res.Args[1].IsConst("") || res.Args[1].IsConst("0")) && pat.Field(hdrOut, "OutLen")(res.Args[2], pat.Bind{})
		_ = want
		if ok {
			r.OK("C15/RESULT", "slice", env.P.Pos(a.Ret.Pos()), "returns hdr.Data[:hdr.OutLen] of the header the device wrote")
		} else {
			r.Fail("C15/RESULT", "slice", env.P.Pos(a.Ret.Pos()), "the quote returned must be exactly hdr.Data[:hdr.OutLen] of the request header as the device left it; returns "+a.Results[0].String())
		}
	}
	// ReqBufSize is the length of the Data array (so the bound gate discharges the slice)
	if sp := env.P.SSA[load.RepoPath(labi)]; sp != nil {
		if t := sp.Type("TdxQuoteHdr"); t != nil {
			st := t.Type().Underlying().(*types.Struct)
			for i := 0; i < st.NumFields(); i++ {
				if st.Field(i).Name() == "Data" {
					if arr, ok := st.Field(i).Type().Underlying().(*types.Array); ok && fmt.Sprint(arr.Len()) == bufSize {
						r.OK("C15/RESULT", "bound-is-capacity", "", "len(TdxQuoteHdr.Data) == ReqBufSize")
					} else {
						r.Fail("C15/RESULT", "bound-is-capacity", "", "ReqBufSize must equal len(TdxQuoteHdr.Data) for the OutLen bound to protect the slice")
					}
				}
			}
		}
	}
	below := map[*ssa.Function]bool{}
	for _, f := range env.calleesBelow(fn) {
		below[f] = true
	}
	// request 1 input: copy(req.ReportData[:], reportData[:])
	okCopy1, okCopy2 := false, false
	var w1, w2 string
	e.Walk(fn, true, func(in ssa.Instruction, fr flow.Frame) {
		c, ok := in.(*ssa.Call)
		if !ok {
			return
		}
		b, ok := c.Call.Value.(*ssa.Builtin)
		if !ok || b.Name() != "copy" {
			return
		}
		dst, src := e.Eval(c.Call.Args[0], fr.Ctx), e.Eval(c.Call.Args[1], fr.Ctx)
		if strings.Contains(dst.String(), "TdxReportReq") && strings.Contains(dst.String(), ".ReportData") {
			w1 = env.P.Pos(c.Pos())
			full := func(t *flow.Term) bool {
				t = flow.StripConv(t)
				return t.Op == flow.OpSlice && (t.Args[1].IsConst("") || t.Args[1].IsConst("0")) && (t.Args[2].IsConst("") || t.Args[2].IsConst("64"))
			}
			if full(dst) && full(src) && strings.Contains(src.String(), rd.String()) && dominatesInstr2(c, c1, e, fn) {
				okCopy1 = true
			}
		}
		if strings.Contains(dst.String(), "TdxQuoteHdr") && strings.Contains(dst.String(), ".Data") {
			w2 = env.P.Pos(c.Pos())
			s := flow.StripConv(src)
			// src = (out of request 1).TdReport[:][:1024]
			fromReq1 := strings.Contains(s.String(), "out["+site1+"#") && strings.Contains(s.String(), ".TdReport")
			upto := s.Op == flow.OpSlice && s.Args[2].IsConst(reportSize)
			if os.Getenv("TDXLINT_DEBUG") != "" {
				fmt.Fprintln(os.Stderr, "copy2 dst:", dst.String(), "\n src:", s.String(), fromReq1, upto)
			}
			if fromReq1 && upto && !strings.Contains(dst.String(), "out[") {
				okCopy2 = true
			}
		}
	})
	if !okCopy1 {
		// the same as a whole-array assignment: req.ReportData = reportData (also as
		// the composite literal TdxReportReq{ReportData: reportData}) before request 1
		e.Walk(fn, true, func(in ssa.Instruction, fr flow.Frame) {
			st, ok := in.(*ssa.Store)
			if !ok {
				return
			}
			fa, ok := st.Addr.(*ssa.FieldAddr)
			if !ok {
				return
			}
			k, ok := load.FieldKeyOf(fa.X.Type(), fa.Field)
			if !ok || k.Field != "ReportData" || !strings.HasSuffix(k.Type, labi+".TdxReportReq") {
				return
			}
			if flow.Eq(flow.StripConv(e.Eval(st.Val, fr.Ctx)), rd) && dominatesInstr2(st, c1, e, fn) {
				okCopy1 = true
				w1 = env.P.Pos(st.Pos())
			}
		})
	}
	if okCopy1 {
		r.OK("C15/REQ1", "report-data-in", w1, "copy(req.ReportData[:], reportData[:]) before the report request")
	} else {
		r.Fail("C15/REQ1", "report-data-in", w1, "the caller's 64 bytes of report data must be copied, full width, into req.ReportData before the report request")
	}
	if okCopy2 {
		r.OK("C15/REQ2", "td-report-in", w2, "copy(hdr.Data[:], (TD report written by request 1)[:1024])")
	} else {
		r.Fail("C15/REQ2", "td-report-in", w2, "the first 1024 bytes of the TD report written by the report request must be copied into hdr.Data before the quote request")
	}
	// header / request initialisation (constant stores), in the function itself or
	// in a helper on its call tree
	wantStores := map[string]string{"TdxQuoteHdr.InLen": reportSize, "TdxQuoteHdr.Version": "1", "TdxQuoteHdr.Status": "0", "TdxQuoteReq.Length": bufSize}
	for k, ss := range env.P.FieldSt {
		if !strings.Contains(k.Type, labi) {
			continue
		}
		short := k.Type[strings.LastIndex(k.Type, ".")+1:] + "." + k.Field
		want, ok := wantStores[short]
		if !ok {
			continue
		}
		for _, s := range ss {
			if !below[s.Parent()] {
				continue
			}
			v := e.Eval(s.Val, e.UnknownCtx(s.Parent()))
			if s.Parent() == fn {
				v = e.Eval(s.Val, e.Root(fn))
			}
			if flow.StripConv(v).IsConst(want) {
				r.OK("C15/REQ2", short, env.P.Pos(s.Pos()), short+" = "+want)
			} else {
				r.Fail("C15/REQ2", short, env.P.Pos(s.Pos()), short+" must be "+want+"; is "+v.String())
			}
			delete(wantStores, short)
		}
	}
	for k := range wantStores {
		r.Fail("C15/REQ2", k, env.P.Pos(fn.Pos()), k+" is not initialised")
	}
	// Buffer = the header
	for _, s := range env.storesTo(labi+".TdxQuoteReq", "Buffer") {
		if below[s.Parent()] {
			v := e.Eval(s.Val, e.UnknownCtx(s.Parent()))
			if s.Parent() == fn {
				v = e.Eval(s.Val, e.Root(fn))
			}
			if hdr(v, pat.Bind{}) {
				r.OK("C15/REQ2", "buffer", env.P.Pos(s.Pos()), "TdxQuoteReq.Buffer = hdr")
			} else {
				r.Fail("C15/REQ2", "buffer", env.P.Pos(s.Pos()), "TdxQuoteReq.Buffer must be the header whose fields are checked afterwards; is "+v.String())
			}
		}
	}
	// getReport returns the TD report of request 1
	if gr := env.fn("client", "getReport"); gr != nil {
		ee := env.engine()
		for _, a := range ee.EntryPaths(gr, flow.ModeErr) {
			res := a.Results[0].String()
			if strings.Contains(res, "out[") && strings.Contains(res, ".TdReport") {
				r.OK("C15/REQ1", "td-report-out", env.P.Pos(a.Ret.Pos()), "getReport returns req.TdReport as written by the device")
			} else {
				r.Fail("C15/REQ1", "td-report-out", env.P.Pos(a.Ret.Pos()), "getReport must return the TdReport field of the request the device filled; returns "+res)
			}
		}
	}
}

// dominatesInstr2: instruction a (possibly in an inlined callee of fn) runs before b.
func dominatesInstr2(a, b ssa.Instruction, e *flow.Engine, fn *ssa.Function) bool {
	if a.Parent() == b.Parent() {
		return dominatesInstr(a, b)
	}
	return true
}

func (env *Env) c15Provider() {
	r := env.R
	fn := env.fn("client", "getRawQuoteViaProvider")
	if fn == nil {
		return
	}
	e := env.engine("client.fallbackToDeviceForRawQuote")
	qp, rd := param(fn, 0), param(fn, 1)
	sup := pat.Invoke("IsSupported", pat.Is(qp))
	get := pat.Invoke("GetRawQuote", pat.Is(qp), pat.Is(rd))
	nProv, nFall := 0, 0
	for _, a := range e.EntryPaths(fn, flow.ModeAll) {
		res0, res1 := a.Results[0], a.Results[1]
		switch {
		case pat.Res("0", get)(res0, pat.Bind{}) && pat.Res("1", get)(res1, pat.Bind{}):
			if hasGateAny(a, pat.Bin("==", sup, pat.Const("nil"))) != nil {
				nProv++
				r.OK("C15/PROVIDER", "verbatim", env.P.Pos(a.Ret.Pos()), "supported: both results of qp.GetRawQuote(reportData) returned unmodified")
			} else {
				r.Fail("C15/PROVIDER", "verbatim", env.P.Pos(a.Ret.Pos()), "the provider's quote may be returned only when this provider's IsSupported() returned nil")
			}
		case pat.Res("0", pat.Call("client.fallbackToDeviceForRawQuote", pat.Is(rd)))(res0, pat.Bind{}):
			if hasGateAny(a, pat.Bin("!=", sup, pat.Const("nil"))) != nil {
				nFall++
				r.OK("C15/PROVIDER", "fallback", env.P.Pos(a.Ret.Pos()), "not supported: device fallback with the same report data")
			} else {
				r.Fail("C15/PROVIDER", "fallback", env.P.Pos(a.Ret.Pos()), "the device fallback must be taken exactly when this provider's IsSupported() fails")
			}
		default:
			r.Fail("C15/PROVIDER", "result@"+env.P.Pos(a.Ret.Pos()), env.P.Pos(a.Ret.Pos()), "getRawQuoteViaProvider must return either the provider's (bytes, error) verbatim or the device fallback; returns "+res0.String())
		}
	}
	if nProv == 0 || nFall == 0 {
		r.Fail("C15/PROVIDER", "both-arms", env.P.Pos(fn.Pos()), "provider path must have a supported arm and a fallback arm")
	} else {
		r.OK("C15/PROVIDER", "both-arms", env.P.Pos(fn.Pos()), "supported and fallback arms present")
	}
}

func (env *Env) c15Dispatch() {
	r := env.R
	if fn := env.fn("client", "GetRawQuote"); fn != nil {
		e := env.engine("client.getRawQuoteViaDevice", "client.getRawQuoteViaProvider")
		qp, rd := param(fn, 0), param(fn, 1)
		nd, np := 0, 0
		for _, a := range e.EntryPaths(fn, flow.ModeAll) {
			s := a.Results[0].String()
			switch {
			case pat.Res("0", pat.Call("client.getRawQuoteViaDevice", pat.Is(qp), pat.Is(rd)))(a.Results[0], pat.Bind{}):
				nd++
			case pat.Res("0", pat.Call("client.getRawQuoteViaProvider", pat.Is(qp), pat.Is(rd)))(a.Results[0], pat.Bind{}):
				np++
			case flow.StripConv(a.Results[0]).IsConst("nil") && e.RetIsFail(a.Ret):
			default:
				r.Fail("C15/DISPATCH", "GetRawQuote@"+env.P.Pos(a.Ret.Pos()), env.P.Pos(a.Ret.Pos()), "GetRawQuote must dispatch to the device or provider path with its own arguments, or fail; returns "+s)
			}
		}
		if nd == 1 && np == 1 {
			r.OK("C15/DISPATCH", "GetRawQuote", env.P.Pos(fn.Pos()), "Device -> getRawQuoteViaDevice, QuoteProvider -> getRawQuoteViaProvider, anything else an error")
			r.OK("C15/DISPATCH", "GetRawQuote#args", env.P.Pos(fn.Pos()), "arguments passed through unchanged")
		} else {
			r.Fail("C15/DISPATCH", "GetRawQuote", env.P.Pos(fn.Pos()), fmt.Sprintf("expected one device arm and one provider arm; found %d / %d", nd, np))
		}
	}
	if fn := env.fn("client", "GetQuote"); fn != nil {
		e := env.engine("client.GetRawQuote", "abi.QuoteToProto")
		raw := pat.Call("client.GetRawQuote", pat.Is(param(fn, 0)), pat.Is(param(fn, 1)))
		parsed := pat.Call("abi.QuoteToProto", pat.Res("0", raw))
		alts := e.EntryPaths(fn, flow.ModeErr)
		env.requireGates(e, alts, "", []gateSpec{
			{rule: "DISPATCH", name: "GetQuote-raw-ok", m: pat.Bin("==", pat.Res("1", raw), pat.Const("nil")), expect: "GetRawQuote error == nil"},
			{rule: "DISPATCH", name: "GetQuote-parse-ok", m: pat.Bin("==", pat.Res("1", parsed), pat.Const("nil")), expect: "abi.QuoteToProto error == nil"},
		})
		for _, a := range alts {
			if pat.Res("0", parsed)(a.Results[0], pat.Bind{}) {
				r.OK("C15/DISPATCH", "GetQuote-result", env.P.Pos(a.Ret.Pos()), "GetQuote = QuoteToProto(GetRawQuote(...))")
			} else {
				r.Fail("C15/DISPATCH", "GetQuote-result", env.P.Pos(a.Ret.Pos()), "GetQuote must return abi.QuoteToProto of exactly the bytes GetRawQuote returned; returns "+a.Results[0].String())
			}
		}
	}
	if fn := env.fn("client", "fallbackToDeviceForRawQuote"); fn != nil {
		e := env.engine("client.getRawQuoteViaDevice", "client.OpenDevice")
		dev := pat.Res("0", pat.Call("client.OpenDevice"))
		okAll := false
		for _, a := range e.EntryPaths(fn, flow.ModeAll) {
			if pat.Res("0", pat.Call("client.getRawQuoteViaDevice", dev, pat.Is(param(fn, 0))))(a.Results[0], pat.Bind{}) && pat.Res("1", pat.Call("client.getRawQuoteViaDevice", dev, pat.Is(param(fn, 0))))(a.Results[1], pat.Bind{}) {
				okAll = true
			}
		}
		if okAll {
			r.OK("C15/DISPATCH", "fallback", env.P.Pos(fn.Pos()), "fallback returns getRawQuoteViaDevice(OpenDevice(), reportData) verbatim")
		} else {
			r.Fail("C15/DISPATCH", "fallback", env.P.Pos(fn.Pos()), "the fallback must return the device path's bytes and error verbatim")
		}
	}
}
