package props

import (
	"go/types"
	"fmt"
	"strings"

	"golang.org/x/tools/go/ssa"

	"tdxlint/internal/flow"
	"tdxlint/internal/load"
	"tdxlint/internal/pat"
)

func init() { Registry["C17"] = C17; Registry["C18"] = C18 }

// callsWithArg lists call instructions of fn one of whose operands evaluates to term want.
func (env *Env) callsWithArg(e *flow.Engine, fn *ssa.Function, want *flow.Term) []ssa.CallInstruction {
	var out []ssa.CallInstruction
	seen := map[ssa.CallInstruction]bool{}
	// every call on the inlined call tree below fn (helpers are seen through)
	e.Walk(fn, false, func(in ssa.Instruction, fr flow.Frame) {
		c, ok := in.(ssa.CallInstruction)
		if !ok || seen[c] {
			return
		}
		if cal := c.Common().StaticCallee(); cal != nil && env.P.InRepo(cal) && cal.Blocks != nil && !e.Atoms[cal] {
			return // a repository helper that is walked into: its own calls count
		}
		vals := append([]ssa.Value{}, c.Common().Args...)
		if c.Common().IsInvoke() {
			vals = append(vals, c.Common().Value)
		}
		for _, a := range vals {
			if flow.Eq(flow.StripConv(e.Eval(a, fr.Ctx)), want) {
				out = append(out, c)
				seen[c] = true
				break
			}
		}
	})
	return out
}

// C17: RTMR extension writes exactly the requested digest to the requested register.
func C17(env *Env) {
	r := env.R
	r.Explanation = "In rtmr.ExtendDigestClient the gates 0 <= index, index <= 3 and len(digest) == crypto.SHA384.Size() dominate the only call that receives the TSM client, which is go-configfs-tsm's rtmr.ExtendDigest(client, index, digest) with the three parameters unmodified, outside any loop (exactly one extend per accepted request). In ExtendEventLogClient the gates hashAlgo == SHA384 and len(eventLog) != 0 are enforced, the digest is Sum(nil) of a hash object created by hashAlgo.New() inside the call that received exactly one Write(eventLog), and it is handed to ExtendDigestClient with the caller's client and index. ExtendDigest / ExtendEventLog only add linuxtsm.MakeClient()."
	r.TrustedBase = []string{"go-configfs-tsm rtmr.ExtendDigest (entry lookup/creation and the digest write), crypto hash implementations", "go/ssa, go/types"}
	r.NotCovered = []string{"entry re-use and the register's extend chain over a history of requests (inside go-configfs-tsm and the kernel)"}
	e := env.engine()
	sha384 := env.libConst("crypto", "SHA384")
	// ExtendDigestClient
	if fn := env.fn("rtmr", "ExtendDigestClient"); fn != nil {
		client, idx, dig := param(fn, 0), param(fn, 1), param(fn, 2)
		alts := e.EntryPaths(fn, flow.ModeErr)
		env.requireGates(e, alts, "", []gateSpec{
			{rule: "ARGS", name: "index>=0", m: pat.IntGe(pat.Is(idx), 0), expect: "rtmrIndex >= 0 (tested on the int itself)"},
			{rule: "ARGS", name: "index<=3", m: pat.IntLe(pat.Is(idx), 3), expect: "rtmrIndex <= 3 (tested on the int itself)"},
			{rule: "ARGS", name: "digest-size", m: pat.Bin("==", pat.Len(pat.Is(dig)), pat.OneOf(pat.Call("(crypto.Hash).Size", pat.Const(sha384)), pat.Const("48"))), expect: "len(digest) == crypto.SHA384.Size()"},
		})
		for _, a := range alts {
			last := a.Results[len(a.Results)-1]
			if pat.Call("github.com/google/go-configfs-tsm/rtmr.ExtendDigest", pat.Is(client), pat.Is(idx), pat.Is(dig))(last, pat.Bind{}) {
				r.OK("C17/EXTEND", "delegate", env.P.Pos(a.Ret.Pos()), "returns rtmr.ExtendDigest(client, rtmrIndex, digest) with unmodified parameters")
			} else {
				r.Fail("C17/EXTEND", "delegate", env.P.Pos(a.Ret.Pos()), "a successful ExtendDigestClient must be exactly go-configfs-tsm rtmr.ExtendDigest(client, rtmrIndex, digest); returns "+last.String())
			}
		}
		uses := env.callsWithArg(e, fn, client)
		inLoop := false
		for _, u := range uses {
			if blockInCycle(u.Block()) {
				inLoop = true
			}
		}
		if len(uses) == 1 && !inLoop {
			r.OK("C17/EXTEND", "single-tsm-call", env.P.Pos(uses[0].Pos()), "the TSM client reaches exactly one call, outside any loop")
		} else {
			r.Fail("C17/EXTEND", "single-tsm-call", env.P.Pos(fn.Pos()), fmt.Sprintf("the TSM client must be handed to exactly one call per request (found %d, in a loop: %v)", len(uses), inLoop))
		}
	}
	// ExtendEventLogClient
	if fn := env.fn("rtmr", "ExtendEventLogClient"); fn != nil {
		client, idx, algo, log := param(fn, 0), param(fn, 1), param(fn, 2), param(fn, 3)
		e2 := env.engine("rtmr.ExtendDigestClient")
		alts := e2.EntryPaths(fn, flow.ModeErr)
		env.requireGates(e2, alts, "", []gateSpec{
			{rule: "ARGS", name: "hash-algo", m: pat.Bin("==", pat.Is(algo), pat.Const(sha384)), expect: "hashAlgo == crypto.SHA384"},
			{rule: "ARGS", name: "log-nonempty", m: pat.NonEmpty(pat.Is(log)), expect: "len(eventLog) != 0"},
		})
		var hobj *flow.Term
		for _, a := range alts {
			last := a.Results[len(a.Results)-1]
			h := pat.Cap("h", pat.Call("(crypto.Hash).New", pat.Is(algo)))
			b := pat.Bind{}
			direct := pat.Slice(pat.Call("crypto/sha512.Sum384", pat.Is(log)), "", "")
			if pat.Call("rtmr.ExtendDigestClient", pat.Is(client), pat.Is(idx), direct)(last, pat.Bind{}) {
				r.OK("C17/EXTEND", "eventlog-delegate", env.P.Pos(a.Ret.Pos()), "returns ExtendDigestClient(client, rtmrIndex, sha512.Sum384(eventLog)[:]) behind the SHA-384 gate")
				r.OK("C17/EXTEND", "eventlog-hash-input", env.P.Pos(a.Ret.Pos()), "one-shot SHA-384 of exactly the event log")
			} else if pat.Call("rtmr.ExtendDigestClient", pat.Is(client), pat.Is(idx), pat.Invoke("Sum", h, pat.Const("nil")))(last, b) {
				hobj = b["h"]
				r.OK("C17/EXTEND", "eventlog-delegate", env.P.Pos(a.Ret.Pos()), "returns ExtendDigestClient(client, rtmrIndex, hashAlgo.New()...Sum(nil))")
			} else {
				r.Fail("C17/EXTEND", "eventlog-delegate", env.P.Pos(a.Ret.Pos()), "a successful ExtendEventLogClient must return ExtendDigestClient(client, rtmrIndex, h.Sum(nil)) with h := hashAlgo.New() created in this call; returns "+last.String())
			}
		}
		if hobj != nil {
			uses := env.callsWithArg(e2, fn, hobj)
			var names []string
			okWrite := false
			for _, u := range uses {
				if u.Common().IsInvoke() {
					names = append(names, u.Common().Method.Name())
					if u.Common().Method.Name() == "Write" && len(u.Common().Args) == 1 && flow.Eq(flow.StripConv(e2.Eval(u.Common().Args[0], e2.Root(fn))), log) && !blockInCycle(u.Block()) {
						okWrite = true
					}
				} else {
					names = append(names, "call")
				}
			}
			if okWrite && strings.Join(names, ",") == "Write,Sum" {
				r.OK("C17/EXTEND", "eventlog-hash-input", env.P.Pos(uses[0].Pos()), "the fresh hash object receives exactly Write(eventLog) then Sum(nil)")
			} else {
				r.Fail("C17/EXTEND", "eventlog-hash-input", env.P.Pos(fn.Pos()), "the digest must be SHA-384 of exactly the given event log: the hash object must receive exactly one Write(eventLog) followed by Sum(nil); found calls ["+strings.Join(names, ",")+"]")
			}
		}
	}
	// the two convenience wrappers
	for _, w := range []struct {
		name, inner string
		n           int
	}{{"ExtendDigest", "rtmr.ExtendDigestClient", 2}, {"ExtendEventLog", "rtmr.ExtendEventLogClient", 3}} {
		fn := env.fn("rtmr", w.name)
		if fn == nil {
			continue
		}
		e3 := env.engine(w.inner)
		alts := e3.EntryPaths(fn, flow.ModeErr)
		mk := pat.Call("github.com/google/go-configfs-tsm/configfs/linuxtsm.MakeClient")
		env.requireGates(e3, alts, "", []gateSpec{{rule: "WRAP", name: w.name + "-client-ok", m: pat.Bin("==", pat.Res("1", mk), pat.Const("nil")), expect: "linuxtsm.MakeClient() error == nil"}})
		for _, a := range alts {
			args := []pat.M{pat.Res("0", mk)}
			for i := 0; i < w.n; i++ {
				args = append(args, pat.Is(param(fn, i)))
			}
			last := a.Results[len(a.Results)-1]
			if pat.Call(w.inner, args...)(last, pat.Bind{}) {
				r.OK("C17/WRAP", w.name, env.P.Pos(a.Ret.Pos()), "delegates with unmodified arguments")
			} else {
				r.Fail("C17/WRAP", w.name, env.P.Pos(a.Ret.Pos()), w.name+" must delegate to "+w.inner+" with its own arguments unchanged; returns "+last.String())
			}
		}
	}
	if f, g := env.fn("rtmr", "ExtendDigestClient"), env.fn("rtmr", "ExtendEventLogClient"); f != nil && g != nil {
		env.errorsNotLost("C17/ERRFLOW", inPackages(env.calleesBelow(f, g, env.fn("rtmr", "ExtendDigest"), env.fn("rtmr", "ExtendEventLog")), "rtmr"))
	}
	r.Floor("C17/ERRFLOW", 2)
	r.Floor("C17/ARGS", 5)
	r.Floor("C17/EXTEND", 4)
	r.Floor("C17/WRAP", 4)
}

func blockInCycle(b *ssa.BasicBlock) bool {
	seen := map[*ssa.BasicBlock]bool{}
	stack := append([]*ssa.BasicBlock{}, b.Succs...)
	for len(stack) > 0 {
		x := stack[len(stack)-1]
		stack = stack[:len(stack)-1]
		if x == b {
			return true
		}
		if seen[x] {
			continue
		}
		seen[x] = true
		stack = append(stack, x.Succs...)
	}
	return false
}

// C18: an event log is returned only behind both gates and a matching RTMR replay.
func C18(env *Env) {
	r := env.R
	r.Explanation = "In rtmr.ParseCcelWithTdQuote every path returning a nil error has passed verify.TdxQuote(quote, opts.Verification) == nil and validate.TdxQuote(quote, opts.Validation) == nil on the same quote and returns the unmodified results of go-eventlog's ccel.ReplayAndExtract(table, ccel, bank, opts.ExtractOpt); the bank is built by one range loop over quote.TdQuoteBody.Rtmrs that unconditionally appends {Index: i, Digest: Rtmrs[i]} for the same i and rejects more than four; every error return carries a nil state. TdxDefaultOpts binds REPORT_DATA to a fresh 64-byte buffer that receives the caller's nonce."
	r.TrustedBase = []string{"go-eventlog ccel.ReplayAndExtract (the replay comparison itself)", "verify.TdxQuote / validate.TdxQuote (decided by C01-C08)", "go/ssa, go/types"}
	r.NotCovered = []string{"the replay comparison inside go-eventlog"}
	fn := env.fn("rtmr", "ParseCcelWithTdQuote")
	if fn == nil {
		return
	}
	e := env.engine("verify.TdxQuote", "validate.TdxQuote")
	ccelB, table, quote, opts := param(fn, 0), param(fn, 1), param(fn, 2), param(fn, 3)
	alts := e.EntryPaths(fn, flow.ModeErr)
	if len(alts) == 0 {
		r.Undecided("C18/GATES", "paths", env.P.Pos(fn.Pos()), "no success alternative")
	}
	ver := pat.Call("verify.TdxQuote", pat.Is(quote), pat.Is(fieldT(opts, "Verification")))
	val := pat.Call("validate.TdxQuote", pat.Is(quote), pat.Is(fieldT(opts, "Validation")))
	env.requireGates(e, alts, "", []gateSpec{
		{rule: "GATES", name: "verify", m: pat.Bin("==", ver, pat.Const("nil")), expect: "verify.TdxQuote(quote, opts.Verification) == nil"},
		{rule: "GATES", name: "validate", m: pat.Bin("==", val, pat.Const("nil")), expect: "validate.TdxQuote(quote, opts.Validation) == nil"},
	})
	for _, a := range alts {
		// order: verify before validate
		iv, il := -1, -1
		for i, g := range a.Gates {
			if pat.Bin("==", ver, pat.Const("nil"))(g.Pred, pat.Bind{}) && iv < 0 {
				iv = i
			}
			if pat.Bin("==", val, pat.Const("nil"))(g.Pred, pat.Bind{}) && il < 0 {
				il = i
			}
		}
		if iv >= 0 && il >= 0 && iv < il {
			r.OK("C18/GATES", "order", env.P.Pos(a.Ret.Pos()), "verification gate precedes validation gate")
		} else if iv >= 0 && il >= 0 {
			r.Fail("C18/GATES", "order", env.P.Pos(a.Ret.Pos()), "the quote must pass verification before policy validation")
		}
		bank := pat.Pred(func(t *flow.Term) bool {
			return strings.Contains(t.String(), "go-eventlog/register.RTMRBank") && strings.Contains(t.String(), "getRtmrsFromTdQuoteV4")
		})
		call := pat.Call("github.com/google/go-eventlog/ccel.ReplayAndExtract", pat.Is(table), pat.Is(ccelB), bank, pat.Is(fieldT(opts, "ExtractOpt")))
		if pat.Res("0", call)(a.Results[0], pat.Bind{}) && pat.Res("1", call)(a.Results[1], pat.Bind{}) {
			r.OK("C18/REPLAY", "result", env.P.Pos(a.Ret.Pos()), "returns ccel.ReplayAndExtract(tableBytes, ccelBytes, bank from the quote's RTMRs, opts.ExtractOpt) unmodified")
		} else {
			r.Fail("C18/REPLAY", "result", env.P.Pos(a.Ret.Pos()), "the state returned on success must be the unmodified result of ccel.ReplayAndExtract(tableBytes, ccelBytes, <bank of the quote's RTMRs>, opts.ExtractOpt); returns "+a.Results[0].String())
		}
	}
	// every failing return has a nil state
	nFail := 0
	for _, b := range fn.Blocks {
		ret, ok := b.Instrs[len(b.Instrs)-1].(*ssa.Return)
		if !ok || !e.RetIsFail(ret) {
			continue
		}
		nFail++
		if c, ok := ret.Results[0].(*ssa.Const); ok && c.IsNil() {
			r.OK("C18/GATES", "nil-state@"+env.P.Pos(ret.Pos()), env.P.Pos(ret.Pos()), "error return carries a nil state")
		} else {
			r.Fail("C18/GATES", "nil-state@"+env.P.Pos(ret.Pos()), env.P.Pos(ret.Pos()), "an error return of ParseCcelWithTdQuote carries a non-nil state")
		}
	}
	env.c18Bank()
	env.c18DefaultOpts()
	// the two gates are the real verification and validation: their own
	// structure is decided by the rules of C01 and C08
	env.via("C01", C01)
	env.via("C08", C08)
	if f := env.fn("rtmr", "ParseCcelWithTdQuote"); f != nil {
		env.errorsNotLost("C18/ERRFLOW", inPackages(env.calleesBelow(f), "rtmr"))
	}
	r.Floor("C18/ERRFLOW", 3)
	r.Floor("C18/GATES", 4)
	r.Floor("C18/REPLAY", 1)
	r.Floor("C18/BANK", 4)
	r.Floor("C18/DEFAULT", 2)
}

// sameField: a is the address of the same field of the same object as b.
func sameField(a *ssa.FieldAddr, b ssa.Value) bool {
	fb, ok := b.(*ssa.FieldAddr)
	return ok && a.Field == fb.Field && a.X == fb.X
}

// c18Bank: RTMR i of the quote becomes register i of the bank, for every i.
func (env *Env) c18Bank() {
	r := env.R
	fn := env.fn("rtmr", "getRtmrsFromTdQuoteV4")
	if fn == nil {
		return
	}
	e := env.engine()
	quote := param(fn, 0)
	rt := fieldT(quote, "TdQuoteBody", "Rtmrs")
	var stores []*ssa.Store
	for k, ss := range env.P.FieldSt {
		if strings.HasSuffix(k.Type, "go-eventlog/register.RTMRBank") && k.Field == "RTMRs" {
			for _, s := range ss {
				if s.Parent() == fn {
					stores = append(stores, s)
				}
			}
		}
	}
	where := env.P.Pos(fn.Pos())
	if len(stores) != 1 {
		r.Fail("C18/BANK", "single-append", where, fmt.Sprintf("the replay bank must be filled by exactly one append site; found %d stores to bank.RTMRs", len(stores)))
		return
	}
	st := stores[0]
	// the pre-sized form: bank.RTMRs = make([]RTMR, len(rtmrs)) once, then one
	// indexed assignment per iteration
	var presized *ssa.Store
	if mkv, ok := st.Val.(*ssa.MakeSlice); ok && pat.Len(pat.Is(rt))(e.Eval(mkv.Len, e.Root(fn)), pat.Bind{}) {
		n := 0
		for _, b := range fn.Blocks {
			for _, in := range b.Instrs {
				es, ok := in.(*ssa.Store)
				if !ok {
					continue
				}
				ia, ok := es.Addr.(*ssa.IndexAddr)
				if !ok {
					continue
				}
				x := ia.X
				if u, ok := x.(*ssa.UnOp); ok {
					if fa, ok := u.X.(*ssa.FieldAddr); ok && fa == st.Addr.(*ssa.FieldAddr) || ok && sameField(fa, st.Addr) {
						x = mkv
					}
				}
				if x == ssa.Value(mkv) {
					n++
					presized = es
				}
			}
		}
		if n != 1 {
			r.Fail("C18/BANK", "single-append", where, fmt.Sprintf("the pre-sized replay bank must be filled by exactly one indexed assignment; found %d", n))
			return
		}
		st = presized
	}
	r.OK("C18/BANK", "single-append", env.P.Pos(st.Pos()), "one store to bank.RTMRs")
	// unconditional within the loop: the store's block dominates every latch of its loop
	g := e.GraphOf(fn, e.Root(fn))
	lp := g.LoopOf(st.Block().Index)
	if lp == nil {
		r.Fail("C18/BANK", "every-rtmr", env.P.Pos(st.Pos()), "the append is not inside the loop over the quote's RTMRs")
		return
	}
	every := true
	for _, lt := range lp.Latches {
		if !g.Dominates(st.Block().Index, lt) {
			every = false
		}
	}
	// loop domain: range over quote.TdQuoteBody.Rtmrs
	head := fn.Blocks[lp.Head]
	dom := flow.C("?")
	if iff, ok := head.Instrs[len(head.Instrs)-1].(*ssa.If); ok {
		dom = e.Eval(iff.Cond, e.Root(fn))
	}
	var loop string
	full := pat.Bin("<", iterFrom(pat.Const("0"), &loop), pat.Len(pat.Is(rt)))(dom, pat.Bind{})
	if every && full {
		r.OK("C18/BANK", "every-rtmr", env.P.Pos(st.Pos()), "every RTMR of the quote is appended (range over quote.TdQuoteBody.Rtmrs, append on every iteration)")
	} else {
		r.Fail("C18/BANK", "every-rtmr", env.P.Pos(st.Pos()), fmt.Sprintf("every RTMR of the quote must enter the replay bank: loop over all of quote.TdQuoteBody.Rtmrs=%v, appended on every iteration=%v (a register left out is not compared with the replay)", full, every))
	}
	// element: {Index: int(i), Digest: Rtmrs[i]}
	v := e.Eval(st.Val, e.Root(fn))
	it := iterFrom(pat.Const("0"), &loop)
	okElem := false
	if presized != nil {
		// bank.RTMRs[i] = {Index: i, Digest: Rtmrs[i]} at index i of the same loop
		idx := e.Eval(presized.Addr.(*ssa.IndexAddr).Index, e.Root(fn))
		okElem = it(idx, pat.Bind{}) && pat.Contains(pat.All(pat.StructField("Index", pat.Conv(it)), pat.StructField("Digest", pat.Op(flow.OpIndex, "", pat.Is(rt), it))))(v, pat.Bind{})
	} else if v.Op == flow.OpConcat && len(v.Args) >= 1 {
		el := v.Args[len(v.Args)-1]
		// the appended element arrives as a one-element slice literal
		s := el.String()
		okElem = pat.Contains(pat.All(pat.StructField("Index", pat.Conv(it)), pat.StructField("Digest", pat.Op(flow.OpIndex, "", pat.Is(rt), it))))(el, pat.Bind{})
		_ = s
	}
	if okElem {
		r.OK("C18/BANK", "index-digest-pairing", env.P.Pos(st.Pos()), "appended element is {Index: i, Digest: quote.TdQuoteBody.Rtmrs[i]} for the same i")
	} else {
		r.Fail("C18/BANK", "index-digest-pairing", env.P.Pos(st.Pos()), "the appended register must be {Index: i, Digest: quote.TdQuoteBody.Rtmrs[i]} of one iteration; value is "+v.String())
	}
	// at most four
	mode := flow.ModeErr
	if res := fn.Signature.Results(); res.Len() > 0 {
		if b, ok := res.At(res.Len() - 1).Type().Underlying().(*types.Basic); ok && b.Kind() == types.Bool {
			mode = flow.ModeTrue // the (bank, ok) form
		}
	}
	alts := e.EntryPaths(fn, mode)
	okMax := len(alts) > 0
	for _, a := range alts {
		// per element (index <= 3 inside the loop) or once, in front of it (len <= 4)
		perElem := hasGate(a, func(t *flow.Term) bool {
			return pat.IntLe(iterFrom(pat.Const("0"), nil), 3)(t, pat.Bind{})
		}, true) != nil
		upFront := hasGateAny(a, pat.IntLe(pat.Len(pat.Is(rt)), 4)) != nil
		if !perElem && !upFront {
			okMax = false
		}
	}
	if okMax {
		r.OK("C18/BANK", "at-most-four", where, "an index above 3 rejects")
	} else {
		r.Fail("C18/BANK", "at-most-four", where, "a quote with more than four RTMRs must be rejected")
	}
}

func (env *Env) c18DefaultOpts() {
	r := env.R
	fn := env.fn("rtmr", "TdxDefaultOpts")
	if fn == nil {
		return
	}
	e := env.engine("verify.DefaultOptions")
	alts := e.EntryPaths(fn, flow.ModeAll)
	if len(alts) != 1 {
		r.Undecided("C18/DEFAULT", "paths", env.P.Pos(fn.Pos()), "TdxDefaultOpts must have a single return")
		return
	}
	res := alts[0].Results[0]
	where := env.P.Pos(fn.Pos())
	// find the copy(buf, nonce) call and the buffer stored as ReportData
	nonce := param(fn, 0)
	var buf *flow.Term
	for _, b := range fn.Blocks {
		for _, in := range b.Instrs {
			if c, ok := in.(*ssa.Call); ok {
				if bi, ok := c.Call.Value.(*ssa.Builtin); ok && bi.Name() == "copy" {
					if flow.Eq(flow.StripConv(e.Eval(c.Call.Args[1], e.Root(fn))), nonce) {
						buf = e.Eval(c.Call.Args[0], e.Root(fn))
					}
				}
			}
		}
	}
	rd := pat.Pred(func(t *flow.Term) bool { return buf != nil && flow.Eq(t, buf) })
	sz := env.repoConst("abi", "ReportDataSize")
	okBuf := buf != nil && (pat.Op(flow.OpMake, "[]byte", pat.Const(sz), pat.Const(sz))(buf, pat.Bind{}) || strings.Contains(buf.String(), "["+sz+"]byte"))
	val := pat.StructField("Validation", pat.Pred(func(t *flow.Term) bool {
		o := e.Object(t, alts[0].Ctx)
		return pat.StructField("TdQuoteBodyOptions", pat.StructField("ReportData", rd))(o, pat.Bind{})
	}))
	if okBuf && val(flow.StripConv(res), pat.Bind{}) {
		r.OK("C18/DEFAULT", "report-data-nonce", where, "Validation.TdQuoteBodyOptions.ReportData is a fresh "+sz+"-byte buffer that receives copy(buf, nonce)")
	} else {
		r.Fail("C18/DEFAULT", "report-data-nonce", where, "TdxDefaultOpts must bind REPORT_DATA to a fresh "+sz+"-byte buffer holding the caller's nonce; result is "+res.String())
	}
	if pat.StructField("Verification", pat.Call("verify.DefaultOptions"))(flow.StripConv(res), pat.Bind{}) {
		r.OK("C18/DEFAULT", "verification-default", where, "Verification = verify.DefaultOptions()")
	} else {
		r.Fail("C18/DEFAULT", "verification-default", where, "TdxDefaultOpts must use verify.DefaultOptions()")
	}
	_ = load.RepoModule
}
