package props

import (
	"fmt"
	"go/types"
	"math"
	"sort"
	"strconv"
	"strings"

	"tdxlint/internal/flow"
)

// lin is a linear integer expression  sum(coef[atom]*atom) + k.
type lin struct {
	coef map[string]int64
	k    int64
	atom map[string]*flow.Term
}

func newLin() *lin { return &lin{coef: map[string]int64{}, atom: map[string]*flow.Term{}} }

func (l *lin) add(o *lin, f int64) {
	for a, c := range o.coef {
		l.coef[a] += c * f
		if l.coef[a] == 0 {
			delete(l.coef, a)
		} else {
			l.atom[a] = o.atom[a]
		}
	}
	l.k += o.k * f
}

func (l *lin) clone() *lin {
	n := newLin()
	n.add(l, 1)
	return n
}

func (l *lin) String() string {
	var ks []string
	for a := range l.coef {
		ks = append(ks, a)
	}
	sort.Strings(ks)
	var sb strings.Builder
	for _, a := range ks {
		s := a
		if len(s) > 60 {
			s = s[:60] + "…"
		}
		fmt.Fprintf(&sb, "%+d*%s ", l.coef[a], s)
	}
	fmt.Fprintf(&sb, "%+d", l.k)
	return sb.String()
}

// linOf converts an integer-valued term to a linear form; conversions between
// integer types are transparent (narrowing conversions are separate obligations).
func linOf(t *flow.Term) *lin {
	t = flow.StripConv(t)
	l := newLin()
	switch t.Op {
	case flow.OpConst:
		if n, ok := flow.ConstInt(t); ok {
			l.k = n
			return l
		}
	case flow.OpBin:
		switch t.Name {
		case "+":
			l.add(linOf(t.Args[0]), 1)
			l.add(linOf(t.Args[1]), 1)
			return l
		case "-":
			l.add(linOf(t.Args[0]), 1)
			l.add(linOf(t.Args[1]), -1)
			return l
		case "*":
			if n, ok := flow.ConstInt(t.Args[0]); ok {
				l.add(linOf(t.Args[1]), n)
				return l
			}
			if n, ok := flow.ConstInt(t.Args[1]); ok {
				l.add(linOf(t.Args[0]), n)
				return l
			}
		}
	case flow.OpLen:
		x := flow.StripConv(t.Args[0])
		if x.Op == flow.OpConcat {
			for _, a := range x.Args {
				l.add(linOf(flow.N(flow.OpLen, "", a)), 1)
			}
			return l
		}
		if n, ok := fixedLen(x); ok {
			l.k = n
			return l
		}
	}
	if t.Op == flow.OpIter && len(t.Args) == 2 {
		// all induction variables of one loop advance together: init + step * trip
		if st, ok := flow.ConstInt(t.Args[1]); ok {
			id := t.Name
			if i := strings.Index(id, "/"); i >= 0 {
				id = id[:i]
			}
			l.add(linOf(t.Args[0]), 1)
			trip := &flow.Term{Op: "trip", Name: id}
			l.coef[trip.String()] += st
			l.atom[trip.String()] = trip
			return l
		}
	}
	s := t.String()
	l.coef[s] = 1
	l.atom[s] = t
	return l
}

// fixedLen: the length of x when its type/shape fixes it.
func fixedLen(x *flow.Term) (int64, bool) {
	x = flow.StripConv(x)
	switch x.Op {
	case flow.OpArray:
		return int64(len(x.Args)), true
	case flow.OpConst:
		if strings.HasPrefix(x.Name, "\"") {
			var s string
			if _, err := fmt.Sscanf(x.Name, "%q", &s); err == nil {
				return int64(len(s)), true
			}
		}
	case flow.OpSlice:
		if x.Args[1].IsConst("") && x.Args[2].IsConst("") {
			if strings.HasPrefix(x.Name, "arr") {
				var n int64
				if _, err := fmt.Sscanf(x.Name, "arr%d", &n); err == nil {
					return n, true
				}
			}
			return fixedLen(x.Args[0])
		}
	}
	if x.Typ != nil {
		ty := x.Typ
		if p, ok := ty.Underlying().(*types.Pointer); ok && x.Op != flow.OpDeref {
			ty = p.Elem()
		}
		if a, ok := ty.Underlying().(*types.Array); ok {
			return a.Len(), true
		}
	}
	if x.Op == flow.OpDeref || x.Op == flow.OpCall {
		if x.Typ != nil {
			if a, ok := x.Typ.Underlying().(*types.Array); ok {
				return a.Len(), true
			}
		}
	}
	return 0, false
}

// atomBounds: interval of an atom from its shape and type.
func atomBounds(t *flow.Term) (lo, hi int64) {
	lo, hi = math.MinInt64/4, math.MaxInt64/4
	if t == nil {
		return
	}
	switch t.Op {
	case "trip":
		lo = 0
	case flow.OpIte, flow.OpPhi:
		// a choice of constants
		first := true
		for i, a := range t.Args {
			if t.Op == flow.OpIte && i == 0 {
				continue
			}
			n, ok := flow.ConstInt(a)
			if !ok {
				return math.MinInt64 / 4, math.MaxInt64 / 4
			}
			if first {
				lo, hi, first = n, n, false
			} else {
				lo, hi = minI(lo, n), maxI(hi, n)
			}
		}
		return
	case flow.OpLen, flow.OpCap:
		lo, hi = 0, math.MaxInt32 // assumption: lengths below 2^31
	case flow.OpIter:
		// init constant (or a choice of constants), positive step: never below the smallest init
		if st, ok := flow.ConstInt(t.Args[1]); ok && st > 0 {
			if v, ok := minConst(t.Args[0]); ok {
				lo = v
			}
		}
	case flow.OpCall:
		switch {
		case strings.HasSuffix(t.Name, ".Uint16"):
			lo, hi = 0, 65535
		case strings.HasSuffix(t.Name, ".Uint32"):
			lo, hi = 0, math.MaxUint32
		case strings.HasSuffix(t.Name, ".Uint64"):
			lo = 0
		}
	case flow.OpConv:
		a, b := atomBounds(flow.StripConv(t))
		lo, hi = a, b
	}
	if t.Typ != nil {
		if b, ok := t.Typ.Underlying().(*types.Basic); ok {
			switch b.Kind() {
			case types.Uint8:
				lo, hi = maxI(lo, 0), minI(hi, 255)
			case types.Uint16:
				lo, hi = maxI(lo, 0), minI(hi, 65535)
			case types.Uint32:
				lo, hi = maxI(lo, 0), minI(hi, math.MaxUint32)
			case types.Uint, types.Uint64, types.Uintptr:
				lo = maxI(lo, 0)
			}
		}
	}
	return
}

func minConst(t *flow.Term) (int64, bool) {
	t = flow.StripConv(t)
	if n, ok := flow.ConstInt(t); ok {
		return n, true
	}
	if t.Op == flow.OpIte || t.Op == flow.OpPhi {
		best, any := int64(math.MaxInt64), false
		for i, a := range t.Args {
			if t.Op == flow.OpIte && i == 0 {
				continue
			}
			v, ok := minConst(a)
			if !ok {
				return 0, false
			}
			any = true
			if v < best {
				best = v
			}
		}
		return best, any
	}
	return 0, false
}

func maxI(a, b int64) int64 {
	if a > b {
		return a
	}
	return b
}
func minI(a, b int64) int64 {
	if a < b {
		return a
	}
	return b
}

// factLins turns a predicate term into linear facts  F <= 0.
func factLins(p *flow.Term) []*lin {
	p = flow.StripConv(p)
	mk := func(a, b *flow.Term, c int64) *lin { // a - b + c <= 0
		l := linOf(a)
		l.add(linOf(b), -1)
		l.k += c
		return l
	}
	switch {
	case p.Op == flow.OpBin && p.Name == "<":
		return []*lin{mk(p.Args[0], p.Args[1], 1)}
	case p.Op == flow.OpBin && p.Name == "<=":
		return []*lin{mk(p.Args[0], p.Args[1], 0)}
	case p.Op == flow.OpBin && p.Name == "==":
		if isIntish(p.Args[0]) && isIntish(p.Args[1]) {
			return []*lin{mk(p.Args[0], p.Args[1], 0), mk(p.Args[1], p.Args[0], 0)}
		}
	case p.Op == flow.OpCall && len(p.Args) == 2 && (strings.HasPrefix(p.Name, "strings.HasPrefix") || strings.HasPrefix(p.Name, "strings.HasSuffix")):
		// library contract: a string with an ASCII prefix K has at least len(K)
		// bytes; strings.ToLower/ToUpper map rune to rune, so the unmapped string
		// has at least len(K) runes, hence bytes
		k := flow.StripConv(p.Args[1])
		if k.Op != flow.OpConst || !strings.HasPrefix(k.Name, "\"") {
			return nil
		}
		lit, err := strconv.Unquote(k.Name)
		if err != nil {
			return nil
		}
		for _, r := range lit {
			if r >= 0x80 {
				return nil
			}
		}
		x := flow.StripConv(p.Args[0])
		for x.Op == flow.OpCall && len(x.Args) == 1 && (strings.HasPrefix(x.Name, "strings.ToLower") || strings.HasPrefix(x.Name, "strings.ToUpper")) {
			x = flow.StripConv(x.Args[0])
		}
		return []*lin{mk(flow.C(fmt.Sprint(len(lit))), flow.N(flow.OpLen, "", x), 0)}
	}
	return nil
}

func isIntish(t *flow.Term) bool {
	t = flow.StripConv(t)
	if t.IsConst("nil") || t.IsConst("true") || t.IsConst("false") {
		return false
	}
	if t.Op == flow.OpConst && strings.HasPrefix(t.Name, "\"") {
		return false
	}
	if t.Typ != nil {
		if b, ok := t.Typ.Underlying().(*types.Basic); ok {
			return b.Info()&types.IsInteger != 0
		}
		if t.Op == flow.OpLen {
			return true
		}
		return false
	}
	return t.Op == flow.OpLen || t.Op == flow.OpConst || t.Op == flow.OpBin || t.Op == flow.OpIter
}

// prover holds the facts available at one program point.
type prover struct {
	facts []*lin
	preds []*flow.Term
}

func newProver(preds []*flow.Term) *prover {
	p := &prover{preds: preds}
	for _, t := range preds {
		p.facts = append(p.facts, factLins(p.resolve(t))...)
	}
	return p
}

// ub returns an upper bound of l using atom intervals only.
func ub(l *lin) (int64, bool) {
	v := l.k
	for a, c := range l.coef {
		lo, hi := atomBounds(l.atom[a])
		switch {
		case c > 0:
			if hi >= math.MaxInt64/8 {
				return 0, false
			}
			v += c * hi
		case c < 0:
			if lo <= math.MinInt64/8 {
				return 0, false
			}
			v += c * lo
		}
	}
	return v, true
}

// proveLE0 tries to show  goal <= 0  as a sum of at most three facts plus atom bounds.
func (p *prover) proveLE0(goal *lin) bool {
	if v, ok := ub(goal); ok && v <= 0 {
		return true
	}
	// only facts sharing an atom with the goal (or with a chosen fact) can help
	rel := func(l *lin, f *lin) bool {
		for a := range f.coef {
			if _, ok := l.coef[a]; ok {
				return true
			}
		}
		return false
	}
	// multipliers worth trying for fact f against residual l: 1 and the ratio
	// that cancels a shared atom
	mults := func(l, f *lin) []int64 {
		ms := []int64{1}
		for a, fc := range f.coef {
			if lc, ok := l.coef[a]; ok && fc != 0 && lc%fc == 0 && lc/fc > 1 {
				ms = append(ms, lc/fc)
			}
		}
		return ms
	}
	for i, f1 := range p.facts {
		if !rel(goal, f1) {
			continue
		}
		for _, m1 := range mults(goal, f1) {
			r1 := goal.clone()
			r1.add(f1, -m1)
			if v, ok := ub(r1); ok && v <= 0 {
				return true
			}
			for j, f2 := range p.facts {
				if j == i || !rel(r1, f2) {
					continue
				}
				for _, m2 := range mults(r1, f2) {
					r2 := r1.clone()
					r2.add(f2, -m2)
					if v, ok := ub(r2); ok && v <= 0 {
						return true
					}
					if m1 != 1 || m2 != 1 {
						continue
					}
					for k, f3 := range p.facts {
						if k == i || k == j || !rel(r2, f3) {
							continue
						}
						r3 := r2.clone()
						r3.add(f3, -1)
						if v, ok := ub(r3); ok && v <= 0 {
							return true
						}
					}
				}
			}
		}
	}
	return false
}

// proveLess shows a < b; proveLeq shows a <= b.
// arms: the alternatives of a merged value (every one must satisfy the goal).
func arms(t *flow.Term) []*flow.Term {
	s := flow.StripConv(t)
	switch s.Op {
	case flow.OpPhi:
		if len(s.Args) > 1 && len(s.Args) <= 4 {
			return s.Args
		}
	case flow.OpIte:
		return s.Args[1:]
	}
	return nil
}

// resolve replaces every conditional value whose condition the facts decide
// by the arm they select (a helper's result under the caller's test of its
// found flag).
func (p *prover) resolve(t *flow.Term) *flow.Term {
	if len(p.preds) == 0 || !t.Contains(func(x *flow.Term) bool { return x.Op == flow.OpIte }) {
		return t
	}
	return flow.Subst(t, func(x *flow.Term) *flow.Term {
		if x.Op != flow.OpIte || len(x.Args) != 3 {
			return nil
		}
		if v, known := truthFromFacts(x.Args[0], p.preds); known {
			if v {
				return p.resolve(x.Args[1])
			}
			return p.resolve(x.Args[2])
		}
		return nil
	})
}

func (p *prover) proveLess(a, b *flow.Term) bool {
	a, b = p.resolve(a), p.resolve(b)
	{
		g := linOf(a)
		g.add(linOf(b), -1)
		g.k++
		if p.proveLE0(g) {
			return true // the merged value itself is constrained by the facts
		}
	}
	if as := arms(a); as != nil {
		for _, x := range as {
			if !p.proveLess(x, b) {
				return false
			}
		}
		return true
	}
	if bs := arms(b); bs != nil {
		for _, x := range bs {
			if !p.proveLess(a, x) {
				return false
			}
		}
		return true
	}
	g := linOf(a)
	g.add(linOf(b), -1)
	g.k++
	return p.proveLE0(g)
}

func (p *prover) proveLeq(a, b *flow.Term) bool {
	a, b = p.resolve(a), p.resolve(b)
	{
		g := linOf(a)
		g.add(linOf(b), -1)
		if p.proveLE0(g) {
			return true
		}
	}
	if as := arms(a); as != nil {
		for _, x := range as {
			if !p.proveLeq(x, b) {
				return false
			}
		}
		return true
	}
	if bs := arms(b); bs != nil {
		for _, x := range bs {
			if !p.proveLeq(a, x) {
				return false
			}
		}
		return true
	}
	g := linOf(a)
	g.add(linOf(b), -1)
	return p.proveLE0(g)
}
