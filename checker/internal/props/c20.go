package props

import (
	"fmt"
	"go/constant"
	"go/token"
	"os"
	"strings"

	"golang.org/x/tools/go/ssa"

	"tdxlint/internal/flow"
	"tdxlint/internal/load"
	"tdxlint/internal/pat"
)

func init() { Registry["C20"] = C20 }

func calleeName(c ssa.CallInstruction) string {
	if f := c.Common().StaticCallee(); f != nil {
		return f.String()
	}
	return ""
}

// C20: the retrying fetcher returns the first success intact and gives up.
func C20(env *Env) {
	r := env.R
	r.Explanation = "Structure of (*trust.RetryHTTPSGetter).Get: there is exactly one call to the wrapped getter and every return is dominated by it (an attempt is always made); the success return sits on the err == nil edge of that call and returns that very call's header and body; every way back to the loop head passes a blocking select (no default) one of whose cases receives from time.After(d), where d is the min of the doubled delay and n.MaxRetryDelay and is itself the loop-carried delay (so the delay never exceeds the cap and never overflows into zero); another case receives from ctx.Done() of a context.WithTimeout(context.Background(), n.Timeout) created before the loop and leads to a non-nil error return. DefaultHTTPSGetter is {2 min, 30 s, &SimpleHTTPSGetter{}}."
	r.TrustedBase = []string{"context, time (timer and deadline behaviour)", "go/ssa, go/types"}
	r.NotCovered = []string{"elapsed-time bounds", "a wrapped getter that blocks", "the degenerate MaxRetryDelay = 0 configuration"}
	fn := env.method("verify/trust", "RetryHTTPSGetter", "Get")
	if fn == nil {
		return
	}
	e := env.engine()
	where := env.P.Pos(fn.Pos())
	n, url := param(fn, 0), param(fn, 1)
	// the wrapped call
	var wrapped []*ssa.Call
	var sel *ssa.Select
	var after *ssa.Call
	for _, b := range fn.Blocks {
		for _, in := range b.Instrs {
			switch x := in.(type) {
			case *ssa.Call:
				if x.Call.IsInvoke() && x.Call.Method.Name() == "Get" {
					wrapped = append(wrapped, x)
				}
			case *ssa.Select:
				if sel != nil {
					r.Fail("C20/WAIT", "single-select", env.P.Pos(x.Pos()), "more than one select in the retry loop")
				}
				sel = x
			}
		}
	}
	if len(wrapped) != 1 {
		r.Fail("C20/FIRST", "single-attempt-site", where, fmt.Sprintf("the retry loop must contain exactly one call of the wrapped getter; found %d", len(wrapped)))
		return
	}
	w := wrapped[0]
	wt := e.Eval(w, e.Root(fn))
	if pat.Invoke("Get", pat.Is(fieldT(n, "Getter")), pat.Is(url))(wt, pat.Bind{}) {
		r.OK("C20/FIRST", "single-attempt-site", env.P.Pos(w.Pos()), "n.Getter.Get(url)")
	} else {
		r.Fail("C20/FIRST", "single-attempt-site", env.P.Pos(w.Pos()), "the attempt must be n.Getter.Get(url); is "+wt.String())
	}
	// every return is preceded by an attempt
	allDom := true
	for _, b := range fn.Blocks {
		if ret, ok := b.Instrs[len(b.Instrs)-1].(*ssa.Return); ok {
			if b == fn.Recover {
				continue // the path after a recovered panic (a function with defer): not a normal return
			}
			if !(w.Block() == b || w.Block().Dominates(b)) {
				allDom = false
				r.Fail("C20/FIRST", "attempt-before-return", env.P.Pos(ret.Pos()), "Get can return without having called the wrapped getter at all (e.g. when the deadline has already passed): the first success is then not returned")
			}
		}
	}
	if allDom {
		r.OK("C20/FIRST", "attempt-before-return", where, "the wrapped call dominates every return")
	}
	// success return: same call's header and body on the err == nil edge
	alts := e.EntryPaths(fn, flow.ModeErr)
	if len(alts) == 0 {
		r.Fail("C20/FIRST", "success-return", where, "no success return")
	}
	for _, a := range alts {
		if c, ok := a.Ret.Results[len(a.Ret.Results)-1].(*ssa.Call); ok && c.Call.IsInvoke() && c.Call.Method.Name() == "Err" && dominatedByDoneCase(a.Ret, c.Call.Value) {
			continue // returns ctx.Err() after ctx.Done() fired: non-nil by the context contract
		}
		okGate := hasGate(a, func(t *flow.Term) bool {
			return pat.Bin("==", pat.Res("2", pat.Is(wt)), pat.Const("nil"))(t, pat.Bind{})
		}, false) != nil
		okRes := len(a.Results) == 3 && pat.Res("0", pat.Is(wt))(a.Results[0], pat.Bind{}) && pat.Res("1", pat.Is(wt))(a.Results[1], pat.Bind{})
		if okGate && okRes {
			r.OK("C20/FIRST", "success-return@"+env.P.Pos(a.Ret.Pos()), env.P.Pos(a.Ret.Pos()), "returns the header and body of the successful attempt, unmodified, on its err == nil edge")
		} else {
			r.Fail("C20/FIRST", "success-return@"+env.P.Pos(a.Ret.Pos()), env.P.Pos(a.Ret.Pos()), fmt.Sprintf("a nil-error return must be on the err == nil edge of the attempt (%v) and return that attempt's header and body unmodified (%v); returns %s, %s", okGate, okRes, a.Results[0], a.Results[1]))
		}
		// no further attempt after success: the return block cannot reach the wrapped call
		if blockReachesBlock(a.Ret.Block(), w.Block()) {
			r.Fail("C20/FIRST", "no-attempt-after-success", env.P.Pos(a.Ret.Pos()), "another attempt is reachable after the successful one")
		}
	}
	// waiting: the select may live in a helper of the package that Get calls
	// between attempts (`if !waitForRetry(ctx, delay) { give up }`)
	var waitCall *ssa.Call // the call of the wait helper in Get, when the select is there
	selFn := fn
	if sel == nil {
		for _, b := range fn.Blocks {
			for _, in := range b.Instrs {
				c, ok := in.(*ssa.Call)
				if !ok {
					continue
				}
				h := c.Call.StaticCallee()
				if h == nil || h.Pkg != fn.Pkg || h.Blocks == nil {
					continue
				}
				for _, hb := range h.Blocks {
					for _, hin := range hb.Instrs {
						if x, ok := hin.(*ssa.Select); ok {
							if sel != nil {
								r.Fail("C20/WAIT", "single-select", env.P.Pos(x.Pos()), "more than one select in the retry loop")
							}
							sel, selFn, waitCall = x, h, c
						}
					}
				}
			}
		}
	}
	if sel == nil {
		r.Fail("C20/WAIT", "blocking-select", where, "the retry loop has no select: failed attempts are not separated by a wait")
		return
	}
	// argOf maps a value of the select's function to the value in Get: a
	// parameter of the wait helper is the argument at its call
	argOf := func(v ssa.Value) ssa.Value {
		if waitCall == nil {
			return v
		}
		for i, p := range selFn.Params {
			if ssa.Value(p) == v && i < len(waitCall.Call.Args) {
				return waitCall.Call.Args[i]
			}
		}
		return nil
	}
	// the place in Get that waits: the select itself or the call of the helper,
	// which must pass its select on every path
	var waitBlock *ssa.BasicBlock = sel.Block()
	if waitCall != nil {
		waitBlock = waitCall.Block()
		for _, hb := range selFn.Blocks {
			if _, ok := hb.Instrs[len(hb.Instrs)-1].(*ssa.Return); ok && !(sel.Block() == hb || sel.Block().Dominates(hb)) {
				r.Fail("C20/WAIT", "blocking-select", env.P.Pos(sel.Pos()), "the wait helper can return without passing its select")
			}
		}
	}
	if !sel.Blocking {
		r.Fail("C20/WAIT", "blocking-select", env.P.Pos(sel.Pos()), "the select between attempts has a default case: the loop can spin without waiting")
	} else {
		r.OK("C20/WAIT", "blocking-select", env.P.Pos(sel.Pos()), "blocking select (no default)")
	}
	// the select separates every retry: it dominates every back edge into the attempt's loop
	g := e.GraphOf(fn, e.Root(fn))
	lp := g.LoopOf(w.Block().Index)
	if lp == nil {
		r.Fail("C20/WAIT", "retry-exists", env.P.Pos(w.Pos()), "the attempt is not in a loop: a failed attempt is never retried")
		return
	}
	r.OK("C20/WAIT", "retry-exists", env.P.Pos(w.Pos()), "the attempt is inside a loop")
	sep := true
	for _, lt := range lp.Latches {
		if !g.Dominates(waitBlock.Index, lt) {
			sep = false
		}
	}
	if sep {
		r.OK("C20/WAIT", "wait-on-every-retry", env.P.Pos(sel.Pos()), "the select dominates every back edge of the retry loop")
	} else {
		r.Fail("C20/WAIT", "wait-on-every-retry", env.P.Pos(sel.Pos()), "there is a way back to the next attempt that does not pass the waiting select (busy loop)")
	}
	// cases
	var doneIdx, afterIdx = -1, -1
	for i, st := range sel.States {
		if st.Dir != 2 { // types.RecvOnly
			continue
		}
		switch c := st.Chan.(type) {
		case *ssa.UnOp:
			// <-timer.C of a timer := time.NewTimer(d) created for this wait
			if fa, ok := c.X.(*ssa.FieldAddr); ok {
				if k, ok := load.FieldKeyOf(fa.X.Type(), fa.Field); ok && k.Field == "C" && strings.HasSuffix(k.Type, "time.Timer") {
					if tc, ok := fa.X.(*ssa.Call); ok && calleeName(tc) == "time.NewTimer" {
						after = tc
						afterIdx = i
					}
				}
			}
		case *ssa.Call:
			if calleeName(c) == "time.After" {
				after = c
				afterIdx = i
			} else if c.Call.IsInvoke() && c.Call.Method.Name() == "Done" {
				doneIdx = i
				ctxV := argOf(c.Call.Value)
				if ctxV == nil {
					r.Fail("C20/DEADLINE", "context", env.P.Pos(c.Pos()), "the context whose Done channel is awaited is not the one Get created")
					continue
				}
				ctxT := e.Eval(ctxV, e.Root(fn))
				want := pat.Res("0", pat.Call("context.WithTimeout", pat.Call("context.Background"), pat.Is(fieldT(n, "Timeout"))))
				cv, _ := ctxV.(*ssa.Extract)
				inLoop := cv == nil || blockInCycle(cv.Tuple.(ssa.Instruction).Block())
				if want(ctxT, pat.Bind{}) && !inLoop {
					r.OK("C20/DEADLINE", "context", env.P.Pos(c.Pos()), "ctx = context.WithTimeout(context.Background(), n.Timeout), created once before the loop")
				} else {
					r.Fail("C20/DEADLINE", "context", env.P.Pos(c.Pos()), fmt.Sprintf("the overall deadline must be context.WithTimeout(context.Background(), n.Timeout) created once outside the loop (in loop: %v); is %s", inLoop, ctxT))
				}
			}
		}
	}
	if after == nil {
		r.Fail("C20/WAIT", "timer-case", env.P.Pos(sel.Pos()), "no case of the select receives from time.After: the wait between attempts is unbounded or absent")
	} else if d := argOf(after.Call.Args[0]); d == nil {
		r.Fail("C20/WAIT", "delay-capped", env.P.Pos(after.Pos()), "the duration awaited is not computed by Get")
	} else {
		env.c20Delay(e, fn, d, env.P.Pos(after.Pos()), lp, g, n)
	}
	if doneIdx < 0 {
		r.Fail("C20/DEADLINE", "done-case", env.P.Pos(sel.Pos()), "no case of the select receives from ctx.Done(): a getter that keeps failing is retried forever")
	} else {
		// the Done case leads only to failing returns (in a wait helper: to `return
		// false`, whose false edge in Get leads only to failing returns)
		var doneBlock *ssa.BasicBlock
		for _, ref := range *sel.Referrers() {
			ex, ok := ref.(*ssa.Extract)
			if !ok || ex.Index != 0 {
				continue
			}
			for _, r2 := range *ex.Referrers() {
				bo, ok := r2.(*ssa.BinOp)
				if !ok || bo.Op != token.EQL {
					continue
				}
				c, ok := bo.Y.(*ssa.Const)
				if !ok || c.Value == nil {
					continue
				}
				k, _ := constant.Int64Val(c.Value)
				for _, r3 := range *bo.Referrers() {
					iff, ok := r3.(*ssa.If)
					if !ok {
						continue
					}
					if int(k) == doneIdx {
						doneBlock = iff.Block().Succs[0]
					} else if len(sel.States) == 2 && doneBlock == nil {
						doneBlock = iff.Block().Succs[1]
					}
				}
			}
		}
		failLike := func(f *ssa.Function, from *ssa.BasicBlock, stop *ssa.BasicBlock, inHelper bool) bool {
			seen := map[*ssa.BasicBlock]bool{}
			stack := []*ssa.BasicBlock{from}
			any := false
			for len(stack) > 0 {
				b := stack[len(stack)-1]
				stack = stack[:len(stack)-1]
				if seen[b] || b == stop {
					continue
				}
				seen[b] = true
				if ret, ok := b.Instrs[len(b.Instrs)-1].(*ssa.Return); ok {
					any = true
					switch {
					case inHelper:
						c, ok := ret.Results[len(ret.Results)-1].(*ssa.Const)
						if !ok || constBoolVal(c) {
							return false
						}
					case e.RetIsFail(ret):
					default:
						c, ok := ret.Results[len(ret.Results)-1].(*ssa.Call)
						if !(ok && c.Call.IsInvoke() && c.Call.Method.Name() == "Err") {
							return false
						}
					}
				}
				stack = append(stack, b.Succs...)
			}
			return any
		}
		okFail := false
		if doneBlock != nil {
			if waitCall == nil {
				okFail = failLike(fn, doneBlock, sel.Block(), false)
			} else if failLike(selFn, doneBlock, sel.Block(), true) {
				// in Get: the edge taken when the helper said "give up"
				for _, ref := range *waitCall.Referrers() {
					var cond ssa.Value = waitCall
					neg := false
					if u, ok := ref.(*ssa.UnOp); ok && u.Op == token.NOT {
						cond, neg = u, true
					}
					for _, r3 := range *cond.Referrers() {
						if iff, ok := r3.(*ssa.If); ok {
							giveUp := iff.Block().Succs[1]
							if neg {
								giveUp = iff.Block().Succs[0]
							}
							if failLike(fn, giveUp, waitCall.Block(), false) {
								okFail = true
							}
						}
					}
				}
			}
		}
		if okFail {
			r.OK("C20/DEADLINE", "done-case", env.P.Pos(sel.Pos()), "the ctx.Done() case returns a non-nil error")
		} else {
			r.Fail("C20/DEADLINE", "done-case", env.P.Pos(sel.Pos()), "the ctx.Done() case must return a non-nil error")
		}
	}
	_ = afterIdx
	env.c20Default()
	r.Floor("C20/FIRST", 3)
	r.Floor("C20/WAIT", 5)
	r.Floor("C20/DEADLINE", 2)
	r.Floor("C20/DEFAULT", 3)
}

func blockReachesBlock(a, b *ssa.BasicBlock) bool {
	seen := map[*ssa.BasicBlock]bool{}
	stack := append([]*ssa.BasicBlock{}, a.Succs...)
	for len(stack) > 0 {
		x := stack[len(stack)-1]
		stack = stack[:len(stack)-1]
		if x == b {
			return true
		}
		if seen[x] {
			continue
		}
		seen[x] = true
		stack = append(stack, x.Succs...)
	}
	return false
}

// c20Delay: d passed to time.After is min(2*delay, n.MaxRetryDelay) and is the loop-carried delay.
func (env *Env) c20Delay(e *flow.Engine, fn *ssa.Function, d ssa.Value, where string, lp *flow.Loop, g *flow.Graph, n *flow.Term) {
	r := env.R
	isMax := func(v ssa.Value) bool {
		u, ok := v.(*ssa.UnOp)
		if !ok || u.Op != token.MUL {
			return false
		}
		fa, ok := u.X.(*ssa.FieldAddr)
		if !ok || fa.X != ssa.Value(fn.Params[0]) {
			return false
		}
		k, ok := load.FieldKeyOf(fa.X.Type(), fa.Field)
		return ok && k.Field == "MaxRetryDelay"
	}
	var doubled ssa.Value
	var helperCarried *ssa.Phi
	okMin := false
	switch x := d.(type) {
	case *ssa.Phi:
		// if X > M { d = M } (or the symmetric forms)
		if len(x.Edges) == 2 {
			var m, o ssa.Value
			for _, ed := range x.Edges {
				if isMax(ed) {
					m = ed
				} else {
					o = ed
				}
			}
			if m != nil && o != nil {
				if id := x.Block().Idom(); id != nil {
					if iff, ok := id.Instrs[len(id.Instrs)-1].(*ssa.If); ok {
						if bo, ok := iff.Cond.(*ssa.BinOp); ok {
							// condition must compare o with the cap, cap chosen when o is larger
							capOnTrue := false
							for i, ed := range x.Edges {
								if ed == m {
									p := x.Block().Preds[i]
									capOnTrue = p == id.Succs[0] || (p == id && id.Succs[0] == x.Block())
								}
							}
							switch {
							case (bo.Op == token.GTR || bo.Op == token.GEQ) && bo.X == o && isMax(bo.Y) && capOnTrue,
								(bo.Op == token.LSS || bo.Op == token.LEQ) && isMax(bo.X) && bo.Y == o && capOnTrue,
								(bo.Op == token.LSS || bo.Op == token.LEQ) && bo.X == o && isMax(bo.Y) && !capOnTrue,
								(bo.Op == token.GTR || bo.Op == token.GEQ) && isMax(bo.X) && bo.Y == o && !capOnTrue:
								okMin = true
								doubled = o
							}
						}
					}
				}
			}
		}
	case *ssa.Call:
		if h := x.Call.StaticCallee(); h != nil && h.Pkg == fn.Pkg && h.Blocks != nil {
			// the capped doubling computed by a helper of the package from the
			// loop-carried delay: decided on the helper's result term
			var prev *ssa.Phi
			for _, a := range x.Call.Args {
				if ph, ok := a.(*ssa.Phi); ok {
					prev = ph
				}
			}
			if prev != nil {
				pt := e.Eval(prev, e.Root(fn))
				maxT := pat.Is(fieldT(n, "MaxRetryDelay"))
				_ = pt
				// twice the loop-carried delay: p+p, p*2 or p<<1 with p the merged value of
				// the loop header (its back-edge arm shows as a cycle placeholder)
				carriedTerm := func(t *flow.Term) bool {
					t = flow.StripConv(t)
					return t.Op == flow.OpPhi && t.Contains(func(x *flow.Term) bool { return x.Op == flow.OpUnknown && strings.HasPrefix(x.Name, "cycle:") })
				}
				var dbl pat.M = func(t *flow.Term, b pat.Bind) bool {
					t = flow.StripConv(t)
					if t.Op != flow.OpBin || len(t.Args) != 2 {
						return false
					}
					switch t.Name {
					case "+":
						return flow.Eq(t.Args[0], t.Args[1]) && carriedTerm(t.Args[0])
					case "*":
						return (t.Args[0].IsConst("2") && carriedTerm(t.Args[1])) || (t.Args[1].IsConst("2") && carriedTerm(t.Args[0]))
					case "<<":
						return t.Args[1].IsConst("1") && carriedTerm(t.Args[0])
					}
					return false
				}
				dt := flow.StripConv(e.Eval(x, e.Root(fn)))
				if os.Getenv("TDXLINT_DEBUG") != "" {
					fmt.Fprintln(os.Stderr, "c20 delay helper term:", dt.String(), "prev:", pt.String())
				}
				okShape := false
				if dt.Op == flow.OpIte {
					c, a, b := dt.Args[0], dt.Args[1], dt.Args[2]
					switch {
					case maxT(a, pat.Bind{}) && dbl(b, pat.Bind{}):
						// the cap on the true side: the test must be  max < doubled
						okShape = pat.OneOf(pat.Bin("<", maxT, dbl), pat.Bin("<=", maxT, dbl))(c, pat.Bind{})
					case dbl(a, pat.Bind{}) && maxT(b, pat.Bind{}):
						okShape = pat.OneOf(pat.Bin("<", dbl, maxT), pat.Bin("<=", dbl, maxT))(c, pat.Bind{})
					}
				}
				if okShape {
					okMin = true
					helperCarried = prev
				}
			}
		}
		if b, ok := x.Call.Value.(*ssa.Builtin); ok && b.Name() == "min" && len(x.Call.Args) == 2 {
			if isMax(x.Call.Args[0]) {
				okMin, doubled = true, x.Call.Args[1]
			} else if isMax(x.Call.Args[1]) {
				okMin, doubled = true, x.Call.Args[0]
			}
		}
	}
	if !okMin {
		r.Fail("C20/WAIT", "delay-capped", where, "the duration passed to time.After must be min(next delay, n.MaxRetryDelay), so that no wait exceeds the configured cap")
		return
	}
	r.OK("C20/WAIT", "delay-capped", where, "time.After(min(2*delay, n.MaxRetryDelay))")
	// doubled = delay + delay (or delay * 2) of the loop-carried phi whose back edge is d itself
	carried := helperCarried
	if bo, ok := doubled.(*ssa.BinOp); ok {
		switch {
		case bo.Op == token.ADD && bo.X == bo.Y:
			carried, _ = bo.X.(*ssa.Phi)
		case bo.Op == token.MUL:
			if c, ok := bo.Y.(*ssa.Const); ok && c.Value != nil && c.Value.ExactString() == "2" {
				carried, _ = bo.X.(*ssa.Phi)
			} else if c, ok := bo.X.(*ssa.Const); ok && c.Value != nil && c.Value.ExactString() == "2" {
				carried, _ = bo.Y.(*ssa.Phi)
			}
		case bo.Op == token.SHL:
			if c, ok := bo.Y.(*ssa.Const); ok && c.Value != nil && c.Value.ExactString() == "1" {
				carried, _ = bo.X.(*ssa.Phi)
			}
		}
	}
	if carried == nil || carried.Block().Index != lp.Head {
		r.Fail("C20/WAIT", "delay-carried", where, "the next delay must be twice the loop-carried delay")
		return
	}
	okCarry := true
	positive := false
	for i, ed := range carried.Edges {
		p := carried.Block().Preds[i]
		if carried.Block().Dominates(p) { // back edge
			if ed != d {
				okCarry = false
			}
		} else if c, ok := ed.(*ssa.Const); ok && c.Value != nil && constant.Sign(c.Value) > 0 {
			positive = true
		}
	}
	if okCarry && positive {
		r.OK("C20/WAIT", "delay-carried", where, "the capped delay is the value carried to the next iteration (bounded by the cap, starts positive: no overflow, no zero wait)")
	} else {
		r.Fail("C20/WAIT", "delay-carried", where, fmt.Sprintf("the value carried to the next iteration must be the capped delay itself (%v) and start from a positive constant (%v); an uncapped counter overflows after enough failures and the loop stops waiting", okCarry, positive))
	}
}

func (env *Env) c20Default() {
	r := env.R
	fn := env.fn("verify/trust", "DefaultHTTPSGetter")
	if fn == nil {
		return
	}
	e := env.engine()
	alts := e.EntryPaths(fn, flow.ModeAll)
	if len(alts) != 1 {
		r.Undecided("C20/DEFAULT", "paths", env.P.Pos(fn.Pos()), "single return expected")
		return
	}
	o := e.Object(alts[0].Results[0], alts[0].Ctx)
	where := env.P.Pos(fn.Pos())
	chk := func(name string, m pat.M, what string) {
		if pat.StructField(name, m)(o, pat.Bind{}) {
			r.OK("C20/DEFAULT", name, where, what)
		} else {
			r.Fail("C20/DEFAULT", name, where, "DefaultHTTPSGetter."+name+" must be "+what+"; object is "+o.String())
		}
	}
	chk("Timeout", pat.Const("120000000000"), "2 minutes")
	chk("MaxRetryDelay", pat.Const("30000000000"), "30 seconds")
	chk("Getter", pat.Pred(func(t *flow.Term) bool {
		return t.Op == flow.OpNew && len(t.Name) > 0 && contains(t.Name, "SimpleHTTPSGetter")
	}), "&SimpleHTTPSGetter{}")
}

func contains(s, sub string) bool {
	for i := 0; i+len(sub) <= len(s); i++ {
		if s[i:i+len(sub)] == sub {
			return true
		}
	}
	return false
}

// dominatedByDoneCase: ret is only reachable through the select case that
// received from ctx.Done() of the given context value.
func dominatedByDoneCase(ret *ssa.Return, ctxv ssa.Value) bool {
	b := ret.Block()
	if len(b.Preds) != 1 {
		return false
	}
	iff, ok := b.Preds[0].Instrs[len(b.Preds[0].Instrs)-1].(*ssa.If)
	if !ok || b.Preds[0].Succs[0] != b {
		return false
	}
	bo, ok := iff.Cond.(*ssa.BinOp)
	if !ok || bo.Op != token.EQL {
		return false
	}
	ex, ok := bo.X.(*ssa.Extract)
	if !ok || ex.Index != 0 {
		return false
	}
	sel, ok := ex.Tuple.(*ssa.Select)
	if !ok {
		return false
	}
	c, ok := bo.Y.(*ssa.Const)
	if !ok || c.Value == nil {
		return false
	}
	idx, _ := constant.Int64Val(c.Value)
	if int(idx) >= len(sel.States) {
		return false
	}
	dc, ok := sel.States[idx].Chan.(*ssa.Call)
	return ok && dc.Call.IsInvoke() && dc.Call.Method.Name() == "Done" && dc.Call.Value == ctxv
}
