package props

import (
	"fmt"
	"go/token"
	"go/types"
	"sort"
	"strings"

	"golang.org/x/tools/go/ssa"

	"tdxlint/internal/flow"
	"tdxlint/internal/load"
)

func init() { Registry["C16"] = C16 }

// root classification of a slice/pointer term
const (
	rootFresh    = "fresh"
	rootExternal = "external"
	rootUnknown  = "unknown"
)

// freshResults: library / atom calls whose (first) result is freshly allocated memory.
var freshResults = map[string]bool{
	"encoding/hex.DecodeString": true, "net/url.QueryUnescape": true, "crypto/x509.ParseCertificate": true,
	"crypto/x509.ParseRevocationList": true, "crypto/sha256.Sum256": true, "fmt.Sprintf": true, "fmt.Errorf": true,
	"encoding/hex.EncodeToString": true, "abi.HeaderToAbiBytes": true, "abi.TdQuoteBodyToAbiBytes": true,
	"abi.EnclaveReportToAbiBytes": true, "abi.SignatureToDER": true, "strings.ToLower": true, "strings.ToUpper": true,
	"os.ReadFile": true, "io.ReadAll": true, "(*golang.org/x/crypto/cryptobyte.Builder).Bytes": true,
	"decode:encoding/json.Unmarshal": true, "decode:encoding/asn1.Unmarshal": true, "strconv.Unquote": true,
	"(crypto/x509/pkix.Name).String": true, "(*math/big.Int).SetBytes": true, "crypto/elliptic.P256": true,
	"crypto/x509.NewCertPool": true, "time.Now": true,
}

// rootsOf returns the set of (class, description) roots a term may alias.
func rootsOf(t *flow.Term, out map[string]string) {
	t = flow.StripConv(t)
	switch t.Op {
	case flow.OpSlice, flow.OpIndex, flow.OpDeref, flow.OpAddr:
		rootsOf(t.Args[0], out)
	case flow.OpCopyOf, flow.OpMake, flow.OpNew, flow.OpArray, flow.OpElemOp, flow.OpStruct, flow.OpConst, flow.OpClosure, flow.OpFunc, flow.OpLen, flow.OpBin, flow.OpUn:
		out[rootFresh+":"+t.Op] = rootFresh
	case flow.OpConcat:
		if _, made := t.Val.(*ssa.MakeSlice); made {
			// a buffer made for the purpose and filled by copies
			out[rootFresh+":make"] = rootFresh
			return
		}
		// append may return its first operand's memory
		if len(t.Args) > 0 {
			rootsOf(t.Args[0], out)
		}
		out[rootFresh+":append"] = rootFresh
	case flow.OpPhi, flow.OpIte:
		for i, a := range t.Args {
			if t.Op == flow.OpIte && i == 0 {
				continue
			}
			rootsOf(a, out)
		}
	case flow.OpParam:
		out[rootExternal+":"+t.Name] = rootExternal
	case flow.OpGlobal, flow.OpAddrG:
		out[rootExternal+":@"+t.Name] = rootExternal
	case flow.OpField:
		// a field of something: shares the fate of the base
		rootsOf(t.Args[0], out)
	case flow.OpRes:
		c := flow.StripConv(t.Args[0])
		name := c.Name
		if i := strings.Index(name, "#"); i >= 0 {
			name = name[:i]
		}
		switch {
		case c.Op == flow.OpCall && name == "encoding/pem.Decode" && t.Name == "1":
			rootsOf(c.Args[0], out) // rest aliases the input
		case c.Op == flow.OpCall && freshResults[name]:
			out[rootFresh+":"+name] = rootFresh
		case c.Op == flow.OpCall && name == "encoding/pem.Decode":
			out[rootFresh+":pem"] = rootFresh
		case c.Op == flow.OpLookup, c.Op == flow.OpAssert:
			rootsOf(c.Args[0], out)
		case c.Op == flow.OpInvoke:
			out[rootFresh+":env:"+name] = rootFresh // handed over by the environment to this call
		default:
			out[rootUnknown+":"+truncate(c.String(), 80)] = rootUnknown
		}
	case flow.OpCall:
		name := t.Name
		if i := strings.Index(name, "#"); i >= 0 {
			name = name[:i]
		}
		if freshResults[name] || strings.HasPrefix(name, "le.bytes") {
			out[rootFresh+":"+name] = rootFresh
		} else {
			out[rootUnknown+":"+truncate(t.String(), 80)] = rootUnknown
		}
	case "out":
		out[rootFresh+":device"] = rootFresh
	case flow.OpLookup:
		rootsOf(t.Args[0], out)
	case flow.OpInvoke:
		out[rootFresh+":env"] = rootFresh
	default:
		out[rootUnknown+":"+truncate(t.String(), 80)] = rootUnknown
	}
}

func externalRoots(t *flow.Term) []string {
	m := map[string]string{}
	rootsOf(t, m)
	var ext []string
	for k, c := range m {
		if c != rootFresh {
			ext = append(ext, k)
		}
	}
	sort.Strings(ext)
	return ext
}

// readOnlySlice: library callees (with argument position, -1 = any) that only read a slice argument.
var readOnlySlice = map[string]bool{
	"bytes.Equal": true, "encoding/hex.EncodeToString": true, "crypto/sha256.Sum256": true, "(*math/big.Int).SetBytes": true,
	"(encoding/binary.littleEndian).Uint16": true, "(encoding/binary.littleEndian).Uint32": true, "(encoding/binary.littleEndian).Uint64": true,
	"encoding/pem.Decode": true, "crypto/x509.ParseCertificate": true, "crypto/x509.ParseRevocationList": true,
	"encoding/json.Unmarshal#0": true, "encoding/asn1.Unmarshal#0": true, "crypto/ecdsa.VerifyASN1": true,
	"(*crypto/x509.Certificate).CheckSignature": true, "bytes.HasPrefix": true, "bytes.Compare": true,
	"google.golang.org/protobuf/proto.Unmarshal#0": true, "google.golang.org/protobuf/encoding/prototext.Unmarshal#0": true,
	"github.com/google/go-eventlog/ccel.ReplayAndExtract": true, "reflect.DeepEqual": true,
	"(*crypto/x509.CertPool).AppendCertsFromPEM": true,
}

func isByteSlice(t types.Type) bool {
	sl, ok := t.Underlying().(*types.Slice)
	if !ok {
		return false
	}
	b, ok := sl.Elem().Underlying().(*types.Basic)
	return ok && b.Kind() == types.Byte
}

// C16: parsing copies, checking never writes.
func C16(env *Env) {
	r := env.R
	r.Explanation = "Effects by alias roots. (a) Every byte-slice field the parser stores into a message is a slice of a clone made inside the parse, never of the caller's buffer. (b) On the inlined call trees of verify.TdxQuote / RawTdxQuote / ExtractChainFromQuote, validate.TdxQuote / RawTdxQuote, abi.QuoteToAbiBytes and the three exported serialisers, every potential write — append(x, ...) (which may write into x's spare capacity), copy(dst, ...), indexed stores, PutUintN, and handing a byte slice to a library function outside the confirmed read-only table — has a destination whose alias root is memory allocated by the library itself during that call; no field of a message reachable from a parameter is stored to. (c) Package-level variables used on those paths are only read, and written only by package initialisers. Together these are a sufficient condition for data-race freedom of concurrent calls on one quote with per-goroutine options, for every schedule."
	r.TrustedBase = []string{"the read-only table of library callees (each confirmed by reading the callee)", "github.com/google/logger has its own lock", "go/ssa, go/types"}
	r.NotCovered = []string{"races inside dependencies"}
	env.c16ParserCopies()
	entries := []struct{ pkg, fn string }{
		{"verify", "TdxQuote"}, {"verify", "RawTdxQuote"}, {"verify", "ExtractChainFromQuote"},
		{"validate", "TdxQuote"}, {"validate", "RawTdxQuote"},
		{"abi", "QuoteToAbiBytes"}, {"abi", "HeaderToAbiBytes"}, {"abi", "TdQuoteBodyToAbiBytes"}, {"abi", "EnclaveReportToAbiBytes"},
	}
	for _, en := range entries {
		if fn := env.fn(en.pkg, en.fn); fn != nil {
			env.c16NoWrites(fn)
		}
	}
	r.Floor("C16/PARSE-COPY", 30)
	r.Floor("C16/WRITE", 60)
	r.Floor("C16/GLOBAL", 9)
}

// c16ParserCopies: alias roots of the parser's stored byte slices.
func (env *Env) c16ParserCopies() {
	r := env.R
	for _, h := range append([]string{"quoteToProtoV4"}, abiParseHelpers...) {
		fn := env.fn("abi", h)
		if fn == nil {
			continue
		}
		e := env.abiEngine(h)
		for _, a := range e.EntryPaths(fn, flow.ModeErr) {
			o := e.Object(a.Results[0], a.Ctx)
			if o.Op != flow.OpStruct {
				r.Undecided("C16/PARSE-COPY", h, env.P.Pos(fn.Pos()), "parser result is not a freshly built message")
				continue
			}
			for _, fi := range o.Args {
				v := fi.Args[0]
				if v.Typ != nil && !isByteSlice(v.Typ) {
					if _, isSl := v.Typ.Underlying().(*types.Slice); !isSl {
						continue
					}
				}
				if fi.Name == "state" || fi.Name == "sizeCache" || fi.Name == "unknownFields" {
					continue
				}
				if ext := externalRoots(v); len(ext) == 0 {
					r.OK("C16/PARSE-COPY", h+"."+fi.Name, env.P.Pos(a.Ret.Pos()), "aliases only memory cloned inside the parse")
				} else if strings.HasPrefix(ext[0], rootExternal) {
					r.Fail("C16/PARSE-COPY", h+"."+fi.Name, env.P.Pos(a.Ret.Pos()), fmt.Sprintf("parsed field %s shares memory with the caller's input buffer (%s): changing the buffer afterwards changes the parsed quote", fi.Name, strings.Join(ext, ", ")))
				} else if v.Typ != nil && isByteSlice(v.Typ) {
					r.Undecided("C16/PARSE-COPY", h+"."+fi.Name, env.P.Pos(a.Ret.Pos()), "cannot determine what parsed field "+fi.Name+" aliases: "+strings.Join(ext, ", "))
				}
			}
		}
	}
}

// c16NoWrites: no potential write with an external alias root below entry.
func (env *Env) c16NoWrites(entry *ssa.Function) {
	r := env.R
	e := env.engine()
	ename := load.FuncName(entry)
	nW := 0
	report := func(kind string, in ssa.Instruction, fr flow.Frame, dst *flow.Term) {
		nW++
		key := fmt.Sprintf("%s|%s:%s@%s", ename, load.FuncName(in.Parent()), kind, env.P.Pos(in.Pos()))
		ext := externalRoots(dst)
		if len(ext) == 0 {
			r.OK("C16/WRITE", key, env.P.Pos(in.Pos()), "destination is memory allocated during this call")
			return
		}
		msg := fmt.Sprintf("%s in %s (reached from %s via %s) may write memory it does not own: destination aliases %s", kind, load.FuncName(in.Parent()), ename, strings.Join(fr.Ctx.CallString(), " > "), strings.Join(ext, ", "))
		if strings.HasPrefix(ext[0], rootExternal) {
			r.Fail("C16/WRITE", key, env.P.Pos(in.Pos()), msg)
		} else {
			r.Undecided("C16/WRITE", key, env.P.Pos(in.Pos()), msg)
		}
	}
	globals := map[string]string{}
	nGlobalUses := 0
	e.Walk(entry, true, func(in ssa.Instruction, fr flow.Frame) {
		r.Functions[load.FuncName(fr.Fn)] = true
		// package state
		for _, op := range in.Operands(nil) {
			g, ok := (*op).(*ssa.Global)
			if !ok || g.Pkg == nil || !strings.HasPrefix(g.Pkg.Pkg.Path(), load.RepoModule) {
				continue
			}
			nGlobalUses++
			name := strings.TrimPrefix(g.Pkg.Pkg.Path(), load.RepoModule+"/") + "." + g.Name()
			if u, ok := in.(*ssa.UnOp); ok && u.Op == token.MUL {
				for _, s := range env.P.GlobalSt[g] {
					if !strings.HasPrefix(s.Parent().Name(), "init") {
						globals[name] = fmt.Sprintf("%s is read on a checking path and written at %s", name, env.P.Pos(s.Pos()))
					}
				}
				continue
			}
			globals[name] = fmt.Sprintf("package-level variable %s is written or used through its address at %s on a checking path (shared mutable state)", name, env.P.Pos(in.Pos()))
		}
		switch x := in.(type) {
		case *ssa.Store:
			switch a := x.Addr.(type) {
			case *ssa.IndexAddr:
				if _, isSlice := a.X.Type().Underlying().(*types.Slice); isSlice {
					report("indexed store", in, fr, e.Eval(a.X, fr.Ctx))
				}
			case *ssa.FieldAddr:
				// store to a field of an object rooted at a parameter (message, options)
				base := e.Eval(a.X, fr.Ctx)
				k, _ := load.FieldKeyOf(a.X.Type(), a.Field)
				if strings.Contains(k.Type, "/proto/") {
					report("store to message field "+k.Field, in, fr, base)
				}
			}
		case *ssa.Call:
			com := x.Common()
			if b, ok := com.Value.(*ssa.Builtin); ok {
				switch b.Name() {
				case "append":
					// the memory an append chain may write into is that of the chain's first operand
					origins := appendOrigins(com.Args[0], map[ssa.Value]bool{})
					if len(origins) > 1 {
						// an accumulator (`buf = append(buf, x...)` in a loop, or merged
						// branches): every buffer the chain may have started from
						for _, o := range origins {
							if c, ok := o.(*ssa.Const); ok && c.IsNil() {
								continue
							}
							report("append", in, fr, e.Eval(o, fr.Ctx))
						}
						return
					}
					base := com.Args[0]
					if len(origins) == 1 {
						base = origins[0]
					}
					if c, ok := base.(*ssa.Const); ok && c.IsNil() {
						return
					}
					// a field of an object this call tree allocated itself
					if ld, ok := base.(*ssa.UnOp); ok && ld.Op == token.MUL {
						if fa, ok := ld.X.(*ssa.FieldAddr); ok {
							if bt := flow.StripConv(e.Eval(fa.X, fr.Ctx)); bt.Op == flow.OpNew {
								report("append", in, fr, bt)
								return
							}
						}
					}
					first := e.Eval(base, fr.Ctx)
					if env.exactCapacityGlobal(first) {
						nW++
						r.OK("C16/WRITE", fmt.Sprintf("%s|%s:append@%s", ename, load.FuncName(in.Parent()), env.P.Pos(in.Pos())), env.P.Pos(in.Pos()), "append to a package-level literal with len == cap that is never re-assigned: always reallocates")
						return
					}
					report("append", in, fr, first)
				case "copy":
					report("copy", in, fr, e.Eval(com.Args[0], fr.Ctx))
				}
				return
			}
			cal := com.StaticCallee()
			if cal == nil || env.P.InRepo(cal) {
				return
			}
			name := cal.String()
			if strings.HasPrefix(name, "(encoding/binary.littleEndian).Put") || strings.HasPrefix(name, "(encoding/binary.bigEndian).Put") {
				report(name, in, fr, e.Eval(com.Args[1], fr.Ctx))
				return
			}
			if strings.HasPrefix(name, "github.com/google/logger") || strings.HasPrefix(name, "(github.com/google/logger") || strings.HasPrefix(name, "fmt.") {
				return
			}
			for ai, a := range com.Args {
				if !isByteSlice(a.Type()) {
					continue
				}
				if readOnlySlice[name] || readOnlySlice[fmt.Sprintf("%s#%d", name, ai)] {
					continue
				}
				report(fmt.Sprintf("byte slice passed to %s (not a confirmed read-only callee)", name), in, fr, e.Eval(a, fr.Ctx))
			}
		}
	})
	if len(globals) == 0 {
		r.OK("C16/GLOBAL", ename, env.P.Pos(entry.Pos()), fmt.Sprintf("%d uses of package-level variables, all reads of variables written only by initialisers", nGlobalUses))
	}
	names := make([]string, 0, len(globals))
	for k := range globals {
		names = append(names, k)
	}
	sort.Strings(names)
	for _, k := range names {
		r.Fail("C16/GLOBAL", ename+"|"+k, "", globals[k])
	}
	if nW == 0 {
		r.OK("C16/WRITE", ename+"|none", env.P.Pos(entry.Pos()), "no write-capable operation below this entry")
	}
}

// exactCapacityGlobal: t is the value of a package-level slice variable that
// is initialised once to a composite literal (len == cap) and never written again.
func (env *Env) exactCapacityGlobal(t *flow.Term) bool {
	t = flow.StripConv(t)
	if t.Op != flow.OpGlobal || len(t.Args) != 1 {
		return false
	}
	init := flow.StripConv(t.Args[0])
	if init.Op != flow.OpSlice || !init.Args[1].IsConst("") || !init.Args[2].IsConst("") || flow.StripConv(init.Args[0]).Op != flow.OpArray {
		return false
	}
	g, ok := t.Args[0].Val.(ssa.Value)
	_ = g
	_ = ok
	// single store, in an initialiser (checked when the term was built); no other store anywhere
	for gl, sts := range env.P.GlobalSt {
		if strings.HasSuffix(t.Name, "."+gl.Name()) && len(sts) != 1 {
			return false
		}
	}
	return true
}

// appendOrigins follows an append chain back to the buffers it may have
// started from: through nested appends to their first operand and through
// phis (loop-carried accumulators, merged branches), ignoring the edges that
// lead back into the chain itself.
func appendOrigins(v ssa.Value, seen map[ssa.Value]bool) []ssa.Value {
	if seen[v] {
		return nil
	}
	seen[v] = true
	switch x := v.(type) {
	case *ssa.Call:
		if bb, ok := x.Call.Value.(*ssa.Builtin); ok && bb.Name() == "append" {
			return appendOrigins(x.Call.Args[0], seen)
		}
	case *ssa.Phi:
		var out []ssa.Value
		for _, ed := range x.Edges {
			out = append(out, appendOrigins(ed, seen)...)
		}
		return out
	}
	return []ssa.Value{v}
}
