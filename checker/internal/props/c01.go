package props

import (
	"fmt"

	"golang.org/x/tools/go/ssa"

	"tdxlint/internal/flow"
	"tdxlint/internal/load"
	"tdxlint/internal/pat"
)

func init() { Registry["C01"] = C01 }

// quoteTerms bundles the provenance terms of the quote's fields.
type quoteTerms struct {
	Q, Header, Body, Sig, Key, QeRep, QeSig, Auth, Chain, RD *flow.Term
}

func quoteOf(entry *ssa.Function) quoteTerms {
	q := param(entry, 0)
	cd := fieldT(q, "SignedData", "CertificationData", "QeReportCertificationData")
	return quoteTerms{
		Q: q, Header: fieldT(q, "Header"), Body: fieldT(q, "TdQuoteBody"),
		Sig: fieldT(q, "SignedData", "Signature"), Key: fieldT(q, "SignedData", "EcdsaAttestationKey"),
		QeRep: fieldT(cd, "QeReport"), QeSig: fieldT(cd, "QeReportSignature"), Auth: fieldT(cd, "QeAuthData", "Data"),
		Chain: fieldT(cd, "PckCertificateChainData", "PckCertChain"), RD: fieldT(cd, "QeReport", "ReportData"),
	}
}

// leafCert matches the certificate parsed from PEM block `hop` (0-based) of chain.
func pemCert(chain pat.M, hop int) pat.M {
	src := chain
	for i := 0; i < hop; i++ {
		src = pat.Res("1", pat.Call("encoding/pem.Decode", src))
	}
	return pat.Res("0", pat.Call("crypto/x509.ParseCertificate", pat.Field(pat.Res("0", pat.Call("encoding/pem.Decode", src)), "Bytes")))
}

var c01Atoms = []string{"abi.HeaderToAbiBytes", "abi.TdQuoteBodyToAbiBytes", "abi.EnclaveReportToAbiBytes", "abi.SignatureToDER", "pcs.PckCertificateExtensions"}

// C01: every link of the signature chain is enforced with the right operands
// on every accept path of verify.TdxQuote, under every option assignment.
func C01(env *Env) {
	r := env.R
	r.Explanation = "Must-pass-through with operand provenance: for every option assignment the success alternatives of verify.TdxQuote are enumerated from the pruned, inlined control flow (a gate is enforced iff its accept edge dominates the success return); each alternative must contain the ECDSA check of sha256(header||body) with the in-quote key, the on-curve and size gates, the QE-report signature check with the leaf of the embedded chain, and the report-data hash binding, each with operands whose provenance terms equal the ones the property states. SignatureToDER's r/s split and the three serialisers' layouts are decided structurally (E1)."
	r.TrustedBase = []string{"crypto/ecdsa, crypto/elliptic, crypto/sha256, crypto/x509, encoding/pem, math/big, golang.org/x/crypto/cryptobyte (semantics of the primitives)", "go/ssa construction, go/types"}
	r.NotCovered = []string{"that single-bit changes flip the verdict is a consequence of the cryptographic primitives, not decided here", "acceptance of genuine quotes (C11)"}
	entry := env.fn("verify", "TdxQuote")
	if entry == nil {
		return
	}
	q := quoteOf(entry)
	ecdsaSHA256 := env.libConst("crypto/x509", "ECDSAWithSHA256")
	total := 0
	for _, part := range verifyPartitions(entry) {
		e := env.engine(c01Atoms...)
		for k, v := range part.assume {
			e.Assume[k] = v
		}
		alts := e.EntryPaths(entry, flow.ModeErr)
		for _, u := range e.Undecided {
			r.Undecided("C01/ENGINE", u, "", "engine could not model: "+u)
		}
		if part.cr && !part.gc {
			continue // all paths reject (decided by C05)
		}
		if len(alts) == 0 {
			r.Undecided("C01/PATHS", part.name, env.P.Pos(entry.Pos()), "no success alternative found for "+part.name)
			continue
		}
		total += len(alts)
		key := pat.Is(q.Key)
		pubX := pat.Call("(*math/big.Int).SetBytes", pat.Op(flow.OpNew, "math/big.Int"), pat.Slice(key, "0", "32"))
		pubY := pat.Call("(*math/big.Int).SetBytes", pat.Op(flow.OpNew, "math/big.Int"), pat.Slice(key, "32", "64"))
		p256 := pat.Call("crypto/elliptic.P256")
		pub := func(t *flow.Term, b pat.Bind) bool {
			o := e.Object(t, e.Root(entry))
			return pat.All(pat.StructField("Curve", p256), pat.StructField("X", pubX), pat.StructField("Y", pubY))(o, b)
		}
		hdrBytes := pat.Res("0", pat.Call("abi.HeaderToAbiBytes", pat.Is(q.Header)))
		bodyBytes := pat.Res("0", pat.Call("abi.TdQuoteBodyToAbiBytes", pat.Is(q.Body)))
		digest := pat.Slice(pat.Call("crypto/sha256.Sum256", pat.Concat(hdrBytes, bodyBytes)), "", "")
		der := func(x *flow.Term) pat.M { return pat.Res("0", pat.Call("abi.SignatureToDER", pat.Is(x))) }
		okRes := func(fn string, arg *flow.Term, idx string) pat.M {
			return pat.Bin("==", pat.Res(idx, pat.Call(fn, pat.Is(arg))), pat.Const("nil"))
		}
		leaf := pemCert(pat.Is(q.Chain), 0)
		zeros := func(t *flow.Term, b pat.Bind) bool {
			t = flow.StripConv(t)
			if !e.IsZeroBuffer(t) {
				return false
			}
			return pat.Bin("-", pat.Len(pat.Is(q.RD)), pat.Const("32"))(t.Args[0], b)
		}
		hashBind := pat.Concat(pat.Slice(pat.Call("crypto/sha256.Sum256", pat.Concat(pat.Is(q.Key), pat.Is(q.Auth))), "", ""), zeros)
		specs := []gateSpec{
			{rule: "GATE/attest-sig", name: "ecdsa.VerifyASN1", m: pat.Call("crypto/ecdsa.VerifyASN1", pub, digest, der(q.Sig)),
				expect: "ecdsa.VerifyASN1(P-256 key{X: quote.SignedData.EcdsaAttestationKey[0:32], Y: [32:64]}, sha256(HeaderToAbiBytes(quote.Header) || TdQuoteBodyToAbiBytes(quote.TdQuoteBody)), SignatureToDER(quote.SignedData.Signature))"},
			{rule: "GATE/attest-sig", name: "HeaderToAbiBytes-ok", m: okRes("abi.HeaderToAbiBytes", q.Header, "1"), expect: "abi.HeaderToAbiBytes(quote.Header) error == nil"},
			{rule: "GATE/attest-sig", name: "TdQuoteBodyToAbiBytes-ok", m: okRes("abi.TdQuoteBodyToAbiBytes", q.Body, "1"), expect: "abi.TdQuoteBodyToAbiBytes(quote.TdQuoteBody) error == nil"},
			{rule: "GATE/attest-sig", name: "SignatureToDER-ok", m: okRes("abi.SignatureToDER", q.Sig, "1"), expect: "abi.SignatureToDER(quote.SignedData.Signature) error == nil"},
			{rule: "GATE/on-curve", name: "IsOnCurve", m: pat.Invoke("IsOnCurve", p256, pubX, pubY), expect: "P256().IsOnCurve(X, Y) of the in-quote attestation key"},
			{rule: "GATE/on-curve", name: "key-size", m: pat.Bin("==", pat.Len(key), pat.Const("64")), expect: "len(quote.SignedData.EcdsaAttestationKey) == 64"},
			{rule: "GATE/qe-report-sig", name: "leaf.CheckSignature",
				m: pat.Bin("==", pat.Call("(*crypto/x509.Certificate).CheckSignature", leaf, pat.Const(ecdsaSHA256),
					pat.Res("0", pat.Call("abi.EnclaveReportToAbiBytes", pat.Is(q.QeRep))), der(q.QeSig)), pat.Const("nil")),
				expect: "ParseCertificate(first PEM block of quote PckCertChain).CheckSignature(ECDSAWithSHA256, EnclaveReportToAbiBytes(QeReport), SignatureToDER(QeReportSignature)) == nil"},
			{rule: "GATE/qe-report-sig", name: "EnclaveReportToAbiBytes-ok", m: okRes("abi.EnclaveReportToAbiBytes", q.QeRep, "1"), expect: "abi.EnclaveReportToAbiBytes(QeReport) error == nil"},
			{rule: "GATE/qe-report-sig", name: "SignatureToDER-ok", m: okRes("abi.SignatureToDER", q.QeSig, "1"), expect: "abi.SignatureToDER(QeReportSignature) error == nil"},
			{rule: "GATE/report-data", name: "bytes.Equal",
				m:      pat.OneOf(pat.Call("bytes.Equal", hashBind, pat.Is(q.RD)), pat.Call("bytes.Equal", pat.Is(q.RD), hashBind)),
				expect: "bytes.Equal(sha256(EcdsaAttestationKey || QeAuthData.Data)[:] || zeros(len(ReportData)-32), QeReport.ReportData)"},
		}
		env.requireGates(e, alts, part.name, specs)
	}
	r.Extra["success_alternatives"] = total
	env.c01SignatureToDER()
	env.c01RawEntry()
	// the serialisers whose output is the signed message: complete, gap-free layouts
	layoutObligations(env, "C01", []string{"HeaderToAbiBytes", "TdQuoteBodyToAbiBytes", "EnclaveReportToAbiBytes"})
	r.Floor("C01/GATE/attest-sig", 12)
	r.Floor("C01/GATE/on-curve", 6)
	r.Floor("C01/GATE/qe-report-sig", 9)
	r.Floor("C01/GATE/report-data", 3)
	r.Floor("C01/DER", 4)
}

// c01SignatureToDER: r = x[0:32], s = x[32:64], in that order, after the size gate.
func (env *Env) c01SignatureToDER() {
	r := env.R
	fn := env.fn("abi", "SignatureToDER")
	if fn == nil {
		return
	}
	e := env.engine()
	x := param(fn, 0)
	alts := e.EntryPaths(fn, flow.ModeErr)
	env.requireGates(e, alts, "", []gateSpec{{rule: "DER", name: "size-gate", m: pat.Bin("==", pat.Len(pat.Is(x)), pat.Const("64")), expect: "len(x) == 64 before the signature is split"}})
	// the returned bytes come from the builder the closure fills
	var clo *ssa.Function
	for _, a := range fn.AnonFuncs {
		clo = a
	}
	if clo == nil || len(fn.AnonFuncs) != 1 {
		r.Undecided("C01/DER", "closure", env.P.Pos(fn.Pos()), "SignatureToDER no longer builds the DER sequence in a single closure")
		return
	}
	r.Functions[load.FuncName(clo)] = true
	var ints []*flow.Term
	var where []string
	ctx := e.UnknownCtx(clo)
	for _, b := range clo.Blocks {
		for _, in := range b.Instrs {
			c, ok := in.(*ssa.Call)
			if !ok {
				continue
			}
			cal := c.Call.StaticCallee()
			if cal == nil {
				continue
			}
			if cal.String() == "(*golang.org/x/crypto/cryptobyte.Builder).AddASN1BigInt" {
				ints = append(ints, e.Eval(c.Call.Args[1], ctx))
				where = append(where, env.P.Pos(c.Pos()))
			}
		}
	}
	if len(clo.Blocks) != 1 || len(ints) != 2 {
		r.Fail("C01/DER", "two-integers", env.P.Pos(clo.Pos()), fmt.Sprintf("the DER sequence must contain exactly two integers added in straight-line order; found %d in %d blocks", len(ints), len(clo.Blocks)))
		return
	}
	want := []struct{ name, lo, hi string }{{"r", "0", "32"}, {"s", "32", "64"}}
	for i, w := range want {
		m := pat.Call("(*math/big.Int).SetBytes", pat.Op(flow.OpNew, "math/big.Int"), pat.Slice(pat.Is(x), w.lo, w.hi))
		if m(ints[i], pat.Bind{}) {
			r.OK("C01/DER", w.name, where[i], "integer "+w.name+" = x["+w.lo+":"+w.hi+"]")
		} else {
			r.Fail("C01/DER", w.name, where[i], fmt.Sprintf("integer #%d of the DER signature must be new(big.Int).SetBytes(x[%s:%s]); found %s", i+1, w.lo, w.hi, ints[i]))
		}
	}
	// AddASN1 with the SEQUENCE tag in the outer function
	seq := env.libConst("golang.org/x/crypto/cryptobyte/asn1", "SEQUENCE")
	found := false
	for _, b := range fn.Blocks {
		for _, in := range b.Instrs {
			if c, ok := in.(*ssa.Call); ok {
				if cal := c.Call.StaticCallee(); cal != nil && cal.String() == "(*golang.org/x/crypto/cryptobyte.Builder).AddASN1" {
					tag := e.Eval(c.Call.Args[1], e.Root(fn))
					if flow.StripConv(tag).IsConst(seq) {
						found = true
						r.OK("C01/DER", "sequence-tag", env.P.Pos(c.Pos()), "AddASN1(SEQUENCE, ...)")
					}
				}
			}
		}
	}
	if !found {
		r.Fail("C01/DER", "sequence-tag", env.P.Pos(fn.Pos()), "SignatureToDER must wrap r and s in an ASN.1 SEQUENCE")
	}
}

// c01RawEntry: RawTdxQuote succeeds only through TdxQuote(QuoteToProto(raw), options).
func (env *Env) c01RawEntry() {
	raw := env.fn("verify", "RawTdxQuote")
	inner := env.fn("verify", "TdxQuote")
	if raw == nil || inner == nil {
		return
	}
	e := env.engine("abi.QuoteToProto", "verify.TdxQuote")
	alts := e.EntryPaths(raw, flow.ModeErr)
	parsed := pat.Res("0", pat.Call("abi.QuoteToProto", pat.Is(param(raw, 0))))
	env.requireGates(e, alts, "", []gateSpec{
		{rule: "RAW", name: "QuoteToProto-ok", m: pat.Bin("==", pat.Res("1", pat.Call("abi.QuoteToProto", pat.Is(param(raw, 0)))), pat.Const("nil")), expect: "abi.QuoteToProto(raw) error == nil"},
	})
	// the success return is the tail call TdxQuote(parsed, options)
	ok := len(alts) > 0
	for _, a := range alts {
		last := a.Results[len(a.Results)-1]
		if !pat.Call("verify.TdxQuote", parsed, pat.Is(param(raw, 1)))(last, pat.Bind{}) {
			ok = false
			env.R.Fail(env.R.Property+"/RAW", "tail-call", env.P.Pos(a.Ret.Pos()), "RawTdxQuote must return verify.TdxQuote(QuoteToProto(raw), options); returns "+last.String())
		}
	}
	if ok {
		env.R.OK(env.R.Property+"/RAW", "tail-call", env.P.Pos(raw.Pos()), "returns verify.TdxQuote(abi.QuoteToProto(raw), options)")
	}
}
