package props

import (
	"fmt"
	"go/constant"
	"go/token"
	"go/types"
	"sort"
	"strings"

	"golang.org/x/tools/go/ssa"

	"tdxlint/internal/flow"
	"tdxlint/internal/load"
	"tdxlint/internal/pat"
)

func init() { Registry["C07"] = C07 }

// C07: the quoting enclave must match Intel's QE identity and be UpToDate.
func C07(env *Env) {
	r := env.R
	r.Explanation = "On every accept path with GetCollateral the QE report (from the quote) is compared with the signed QE Identity: MISCSELECT & LE32(miscselectMask) == LE32(miscselect) with both 4-byte gates, attributes == attributesMask & report ATTRIBUTES with the equal-length gate (mask operand position checked, AND shape of the helper recognised), MRSIGNER equality, ISVPRODID equality, first-match selection over tcbLevels with level.isvsvn <= report ISVSVN, and status UpToDate. The status decoder accepts exactly the declared status constants and stores the unquoted input; the hex decoder propagates both errors. Decoded collateral is handed only to confirmed read-only library functions between decoding and use."
	r.TrustedBase = []string{"encoding/binary, bytes.Equal, encoding/hex, strconv.Unquote", "go/ssa, go/types"}
	r.NotCovered = []string{"numeric evaluation of masks and SVNs"}
	entry := env.fn("verify", "TdxQuote")
	if entry == nil {
		return
	}
	q := quoteOf(entry)
	docs := collateralDocs(q)
	qr := func(f string) pat.M { return pat.Is(fieldT(q.QeRep, f)) }
	le32 := func(x pat.M) pat.M {
		return pat.Call("(encoding/binary.littleEndian).Uint32", pat.Global("encoding/binary.LittleEndian"), x)
	}
	for _, part := range verifyPartitions(entry) {
		if !part.gc {
			continue
		}
		e := env.engine(verifyAtoms...)
		for k, v := range part.assume {
			e.Assume[k] = v
		}
		alts := feasible(e.EntryPaths(entry, flow.ModeErr))
		for _, u := range e.Undecided {
			r.Undecided("C07/ENGINE", u, "", "engine could not model: "+u)
		}
		if len(alts) == 0 {
			r.Undecided("C07/PATHS", part.name, env.P.Pos(entry.Pos()), "no success alternative found for "+part.name)
			continue
		}
		for ai, a := range alts {
			pn := fmt.Sprintf("%s|alt%d", part.name, ai)
			doc := signedDoc(a, docs[1])
			if doc == nil {
				r.Fail("C07/DOC", pn, env.P.Pos(a.Ret.Pos()), "accept path does not fetch the QE Identity with the expected URL")
				continue
			}
			id := pat.Is(doc)
			b := func(f string) pat.M { return pat.Field(id, f, "Bytes") }
			var lp string
			lvl := elemOf(pat.Field(id, "TcbLevels"), &lp)
			eq := func(x, y pat.M) pat.M { return pat.OneOf(pat.Call("bytes.Equal", x, y), pat.Call("bytes.Equal", y, x)) }
			specs := []gateSpec{
				{rule: "ID", name: "miscselect-mask-size", m: pat.Bin("==", pat.Len(b("MiscselectMask")), pat.Const("4")), expect: "len(miscselectMask) == 4"},
				{rule: "ID", name: "miscselect-size", m: pat.Bin("==", pat.Len(b("Miscselect")), pat.Const("4")), expect: "len(miscselect) == 4"},
				{rule: "ID", name: "miscselect", m: pat.Bin("==", pat.Bin("&", qr("MiscSelect"), le32(b("MiscselectMask"))), le32(b("Miscselect"))), expect: "report MISCSELECT & LE32(identity.miscselectMask) == LE32(identity.miscselect)"},
				{rule: "ID", name: "attributes-len", m: pat.Bin("==", pat.Len(b("AttributesMask")), pat.Len(qr("Attributes"))), expect: "len(identity.attributesMask) == len(report ATTRIBUTES)"},
				{rule: "ID", name: "attributes", m: eq(b("Attributes"), pat.OneOf(pat.Op(flow.OpElemOp, "&", b("AttributesMask"), qr("Attributes")), pat.Op(flow.OpElemOp, "&", qr("Attributes"), b("AttributesMask")))), expect: "bytes.Equal(identity.attributes, identity.attributesMask & report ATTRIBUTES)"},
				{rule: "ID", name: "mrsigner", m: eq(b("Mrsigner"), qr("MrSigner")), expect: "bytes.Equal(identity.mrsigner, report MRSIGNER)"},
				{rule: "ID", name: "isvprodid", m: pat.Bin("==", qr("IsvProdId"), pat.Conv(pat.Field(id, "IsvProdID"))), expect: "report ISVPRODID == identity.isvprodid"},
				{rule: "SEL", name: "isvsvn", m: pat.Bin("<=", pat.Field(lvl, "Tcb", "Isvsvn"), qr("IsvSvn")), expect: "selected level.isvsvn <= report ISVSVN"},
				{rule: "VERDICT", name: "qe-status", m: pat.Bin("==", pat.Field(lvl, "TcbStatus"), pat.Const(`"UpToDate"`)), expect: "status of the selected QE TCB level == UpToDate"},
			}
			env.requireGates(e, []*flow.Alt{a}, pn, specs)
			if lp != "" {
				saved := r.Property
				env.firstMatchRule(e, lp, "qe|"+pn, "C07/FIRST")
				env.exactSelectionRule(a, lp, []pat.M{specs[7].m, specs[8].m}, "qe|"+pn, "C07/EXACT")
				_ = saved
			}
		}
	}
	env.c07StatusDecoder()
	env.c07HexDecoder()
	env.decodedReadOnly("C07/DECODED-RO", "EnclaveIdentity")
	// the QE report fields compared above are the signed ones only if the
	// serialiser's narrowing conversions are range-gated by the validity predicate
	if ser := env.fn("abi", "EnclaveReportToAbiBytes"); ser != nil {
		env.narrowingCovered(env.engine(), ser, "C07", "EnclaveReportToAbiBytes")
	}
	r.Floor("C07/NARROW", 2)
	r.Floor("C07/ID", 14)
	r.Floor("C07/SEL", 2)
	r.Floor("C07/VERDICT", 2)
	r.Floor("C07/FIRST", 2)
	r.Floor("C07/DECODER", 4)
	r.Floor("C07/DECODED-RO", 4)
}

// c07StatusDecoder: the status decoder's accepted set equals the declared constants.
func (env *Env) c07StatusDecoder() {
	r := env.R
	fn := env.method("pcs", "TcbComponentStatus", "UnmarshalJSON")
	if fn == nil {
		return
	}
	sp := env.P.SSA[load.RepoPath("pcs")]
	declared := map[string]bool{}
	for _, name := range sp.Pkg.Scope().Names() {
		if c, ok := sp.Pkg.Scope().Lookup(name).(*types.Const); ok {
			if n, ok := c.Type().(*types.Named); ok && n.Obj().Name() == "TcbComponentStatus" {
				declared[constant.StringVal(c.Val())] = true
			}
		}
	}
	accepted := map[string]bool{}
	for _, b := range fn.Blocks {
		for _, in := range b.Instrs {
			if bo, ok := in.(*ssa.BinOp); ok && bo.Op == token.EQL {
				for _, side := range []ssa.Value{bo.X, bo.Y} {
					if c, ok := side.(*ssa.Const); ok && c.Value != nil && c.Value.Kind() == constant.String {
						accepted[constant.StringVal(c.Value)] = true
					}
				}
			}
		}
	}
	// the same set written as a lookup table: `if _, ok := known[status]; !ok { reject }`
	// with known a package-level map filled once, by its initialiser
	if len(accepted) == 0 {
		var blocks []*ssa.BasicBlock
		for _, f := range env.calleesBelow(fn) {
			blocks = append(blocks, f.Blocks...)
		}
		for _, b := range blocks {
			for _, in := range b.Instrs {
				lk, ok := in.(*ssa.Lookup)
				if !ok || !lk.CommaOk {
					continue
				}
				ld, ok := lk.X.(*ssa.UnOp)
				if !ok {
					continue
				}
				gl, ok := ld.X.(*ssa.Global)
				if !ok || len(env.P.GlobalSt[gl]) != 1 {
					continue
				}
				st := env.P.GlobalSt[gl][0]
				if st.Parent().Name() != "init" {
					continue
				}
				mm, ok := st.Val.(*ssa.MakeMap)
				if !ok {
					continue
				}
				// the flag must gate every success path (directly or through a
				// membership helper that returns it)
				ee := env.engine()
				flag := pat.Res("1", pat.Op(flow.OpLookup, "", pat.Global(load.GlobalName(gl)), pat.Any()))
				gated := true
				for _, a := range ee.EntryPaths(fn, flow.ModeErr) {
					if hasGateAny(a, flag) == nil {
						gated = false
					}
				}
				if !gated {
					continue
				}
				onlyUpdates := true
				for _, ref := range *mm.Referrers() {
					switch u := ref.(type) {
					case *ssa.MapUpdate:
						if c, ok := u.Key.(*ssa.Const); ok && c.Value != nil && c.Value.Kind() == constant.String {
							accepted[constant.StringVal(c.Value)] = true
						} else {
							onlyUpdates = false
						}
					case *ssa.Store, *ssa.DebugRef:
					default:
						onlyUpdates = false
					}
				}
				if !onlyUpdates {
					accepted = map[string]bool{}
				}
			}
		}
	}
	// or as a linear search of a package-level array / slice of statuses filled by
	// its initialiser: every success path carries  decoded == table[i]
	if len(accepted) == 0 {
		ee := env.engine()
		alts := ee.EntryPaths(fn, flow.ModeErr)
		var table string
		okAll := len(alts) > 0
		for _, a := range alts {
			found := ""
			for _, g := range a.Gates {
				if g.Pred == nil {
					continue
				}
				p := flow.StripConv(g.Pred)
				if p.Op != flow.OpBin || p.Name != "==" {
					continue
				}
				for _, side := range p.Args {
					x := flow.StripConv(side)
					if x.Op == flow.OpPhi {
						// an element read at a variable index: the initialiser's constants
						// joined with the element's own place
						var place *flow.Term
						consts := true
						for _, arm := range x.Args {
							if ar := flow.StripConv(arm); ar.Op == flow.OpIndex {
								place = ar
							} else if ar.Op != flow.OpConst {
								consts = false
							}
						}
						if place != nil && consts {
							x = place
						}
					}
					if x.Op == flow.OpIndex {
						if gt := flow.StripConv(x.Args[0]); gt.Op == flow.OpGlobal || gt.Op == flow.OpAddrG || (gt.Op == flow.OpDeref && flow.StripConv(gt.Args[0]).Op == flow.OpAddrG) {
							name := gt.Name
							if gt.Op == flow.OpDeref {
								name = flow.StripConv(gt.Args[0]).Name
							}
							found = name
						}
					}
				}
			}
			if found == "" || (table != "" && table != found) {
				okAll = false
			}
			table = found
		}
		if okAll && table != "" {
			i := strings.LastIndex(table, ".")
			if gl := env.P.Global(table[:i], table[i+1:]); gl != nil {
				only := true
				for _, f := range env.P.Funcs {
					for _, b := range f.Blocks {
						for _, in := range b.Instrs {
							st, ok := in.(*ssa.Store)
							if !ok {
								continue
							}
							ia, ok := st.Addr.(*ssa.IndexAddr)
							if !ok || ia.X != ssa.Value(gl) {
								continue
							}
							c, isC := st.Val.(*ssa.Const)
							if f.Name() == "init" && isC && c.Value != nil && c.Value.Kind() == constant.String {
								accepted[constant.StringVal(c.Value)] = true
							} else {
								only = false
							}
						}
					}
				}
				if !only || len(env.P.GlobalSt[gl]) != 0 {
					accepted = map[string]bool{}
				}
			}
		}
	}
	want := []string{"UpToDate", "SWHardeningNeeded", "ConfigurationNeeded", "ConfigurationAndSWHardeningNeeded", "OutOfDate", "OutOfDateConfigurationNeeded", "Revoked"}
	keys := func(m map[string]bool) string {
		var ks []string
		for k := range m {
			ks = append(ks, k)
		}
		sort.Strings(ks)
		return strings.Join(ks, ",")
	}
	wm := map[string]bool{}
	for _, w := range want {
		wm[w] = true
	}
	where := env.P.Pos(fn.Pos())
	if keys(accepted) == keys(declared) && keys(declared) == keys(wm) {
		r.OK("C07/DECODER", "status-enum", where, "decoder accepts exactly the 7 declared statuses")
	} else {
		r.Fail("C07/DECODER", "status-enum", where, fmt.Sprintf("status decoder accepts {%s}; declared constants {%s}; Intel's statuses {%s}", keys(accepted), keys(declared), keys(wm)))
	}
	// the stored value is the unquoted input, both errors propagate
	e := env.engine()
	alts := e.EntryPaths(fn, flow.ModeErr)
	s := param(fn, 1)
	unq := pat.Call("strconv.Unquote", pat.Conv(pat.Is(s)))
	env.requireGates(e, alts, "", []gateSpec{{rule: "DECODER", name: "status-unquote-ok", m: pat.Bin("==", pat.Res("1", unq), pat.Const("nil")), expect: "strconv.Unquote error == nil"}})
	stored := false
	for _, b := range fn.Blocks {
		for _, in := range b.Instrs {
			if st, ok := in.(*ssa.Store); ok && st.Addr == ssa.Value(fn.Params[0]) {
				v := e.Eval(st.Val, e.Root(fn))
				if pat.Conv(pat.Res("0", unq))(v, pat.Bind{}) {
					stored = true
				} else if env.guardHas(e, fn, st.Block(), pat.Bin("==", pat.Conv(pat.Is(v)), pat.Conv(pat.Res("0", unq)))) {
					// a table entry found equal to the unquoted input
					stored = true
				} else {
					r.Fail("C07/DECODER", "status-stored", env.P.Pos(st.Pos()), "the decoded status must be the unquoted input itself; stores "+v.String())
					return
				}
			}
		}
	}
	if stored {
		r.OK("C07/DECODER", "status-stored", where, "*st = TcbComponentStatus(unquoted input)")
	} else {
		r.Fail("C07/DECODER", "status-stored", where, "status decoder never stores the decoded value")
	}
}

func (env *Env) c07HexDecoder() {
	r := env.R
	fn := env.method("pcs", "HexBytes", "UnmarshalJSON")
	if fn == nil {
		return
	}
	e := env.engine()
	alts := e.EntryPaths(fn, flow.ModeErr)
	s := param(fn, 1)
	unq := pat.Call("strconv.Unquote", pat.Conv(pat.Is(s)))
	dec := pat.Call("encoding/hex.DecodeString", pat.Res("0", unq))
	env.requireGates(e, alts, "", []gateSpec{
		{rule: "DECODER", name: "hex-unquote-ok", m: pat.Bin("==", pat.Res("1", unq), pat.Const("nil")), expect: "strconv.Unquote error == nil"},
		{rule: "DECODER", name: "hex-decode-ok", m: pat.Bin("==", pat.Res("1", dec), pat.Const("nil")), expect: "hex.DecodeString error == nil"},
	})
	okStore := false
	for _, b := range fn.Blocks {
		for _, in := range b.Instrs {
			if st, ok := in.(*ssa.Store); ok {
				if fa, ok := st.Addr.(*ssa.FieldAddr); ok && fa.X == ssa.Value(fn.Params[0]) {
					v := e.Eval(st.Val, e.Root(fn))
					if pat.Res("0", dec)(v, pat.Bind{}) {
						okStore = true
					} else {
						r.Fail("C07/DECODER", "hex-stored", env.P.Pos(st.Pos()), "HexBytes.Bytes must be hex.DecodeString(unquoted input); stores "+v.String())
						return
					}
				}
			}
		}
	}
	if okStore {
		r.OK("C07/DECODER", "hex-stored", env.P.Pos(fn.Pos()), "hb.Bytes = hex.DecodeString(unquote(s))")
	} else {
		r.Fail("C07/DECODER", "hex-stored", env.P.Pos(fn.Pos()), "HexBytes decoder never stores the decoded bytes")
	}
}

// readOnlyCallees may receive decoded collateral (or a reference into it).
var readOnlyCallees = map[string]bool{
	"reflect.DeepEqual": true, "bytes.Equal": true, "strings.EqualFold": true, "encoding/hex.EncodeToString": true,
	"encoding/hex.DecodeString": true, "(encoding/binary.littleEndian).Uint32": true, "(time.Time).After": true,
	"fmt.Errorf": true, "fmt.Sprintf": true, "(github.com/google/logger.Verbose).Info": true, "(github.com/google/logger.Verbose).Infof": true,
	"github.com/google/logger.Info": true, "github.com/google/logger.Infof": true,
	"(*crypto/x509.Certificate).CheckSignature": true, "encoding/json.Unmarshal#0": true,
}

// decodedReadOnly: between decoding and use, decoded collateral values are
// passed only to confirmed read-only library functions (a sort, an in-place
// normalisation or any other mutator would change "listed order" or values
// after the signature was checked over the original bytes).
// doc selects the collateral document: "TcbInfo" or "EnclaveIdentity" (a value
// whose term names neither belongs to both).
func (env *Env) decodedReadOnly(rule, doc string) {
	r := env.R
	e := env.engine()
	isDecoded := func(t *flow.Term) bool {
		return t.Contains(func(x *flow.Term) bool {
			return x.Op == flow.OpCall && strings.HasPrefix(x.Name, "decode:encoding/json.Unmarshal")
		})
	}
	n := 0
	for _, fn := range env.P.Funcs {
		if fn.Pkg == nil || fn.Pkg.Pkg.Path() != load.RepoPath("verify") {
			continue
		}
		for _, b := range fn.Blocks {
			for _, in := range b.Instrs {
				c, ok := in.(ssa.CallInstruction)
				if !ok {
					continue
				}
				com := c.Common()
				cal := com.StaticCallee()
				if cal == nil || env.P.InRepo(cal) {
					continue
				}
				for ai, a := range com.Args {
					switch a.Type().Underlying().(type) {
					case *types.Slice, *types.Pointer, *types.Map, *types.Interface:
					default:
						continue
					}
					t := e.Eval(a, e.UnknownCtx(fn))
					if t.Op == flow.OpAddr {
						continue // destination of a decoder: modelled as a write by the heap engine
					}
					if !isDecoded(t) {
						continue
					}
					if ts := t.String(); doc != "" && !strings.Contains(ts, doc) && (strings.Contains(ts, "TcbInfo") || strings.Contains(ts, "EnclaveIdentity")) {
						continue // the other document's values
					}
					// varargs of formatting calls arrive as slices of interface{}
					name := cal.String()
					n++
					key := fmt.Sprintf("%s>%s#%d", load.FuncName(fn), name, ai)
					if readOnlyCallees[name] || readOnlyCallees[fmt.Sprintf("%s#%d", name, ai)] {
						r.OK(rule, key, env.P.Pos(c.Pos()), "read-only callee")
					} else {
						s := t.String()
						if len(s) > 200 {
							s = s[:200] + "…"
						}
						r.Fail(rule, key, env.P.Pos(c.Pos()), fmt.Sprintf("decoded collateral is passed to %s, which is not a confirmed read-only function (argument %d: %s)", name, ai, s))
					}
				}
			}
		}
	}
}
