package props

import (
	"fmt"
	"go/token"
	"go/types"
	"math"
	"strings"

	"golang.org/x/tools/go/ssa"

	"tdxlint/internal/flow"
	"tdxlint/internal/load"
)

// safetyRun decides the crash-freedom obligations (bounds, nil, assertions,
// narrowing, termination) of every instruction reachable from entry.
type safetyRun struct {
	env    *Env
	e      *flow.Engine
	rule   string // rule prefix, e.g. "C10"
	entry  *ssa.Function
	gcache map[string][][]*flow.Term
	label  string                 // partition label appended to obligation keys
	kinds  map[string]bool        // nil: every obligation kind; otherwise only these
	altCtx map[string][]*flow.Ctx // per facts alternative: the context that binds callee choices
	// counters
	n map[string]int
}

// libNonNilOnSuccess: library calls whose pointer result is non-nil when the
// error result of the same call is nil.
var libNonNilOnSuccess = map[string]bool{
	"crypto/x509.ParseCertificate": true, "crypto/x509.ParseRevocationList": true,
}

func (s *safetyRun) factsAt(fr flow.Frame, blk *ssa.BasicBlock) [][]*flow.Term {
	key := fmt.Sprintf("%p/%p/%d", fr.Fn, fr.Ctx, blk.Index)
	if f, ok := s.gcache[key]; ok {
		return f
	}
	var outer []*flow.Term
	// facts of the enclosing frames: gates common to all alternatives at each call site
	for c := fr.Ctx; c != nil && c.Parent != nil; c = c.Parent {
		var siteFn *ssa.Function
		var siteBlk *ssa.BasicBlock
		if c.Call != nil {
			siteFn, siteBlk = c.Call.Parent(), c.Call.Block()
		} else if par := c.Fn.Parent(); par != nil {
			// a closure runs after it was created: facts at its creation site hold
			for _, b := range par.Blocks {
				for _, in := range b.Instrs {
					if mc, ok := in.(*ssa.MakeClosure); ok && mc.Fn == ssa.Value(c.Fn) {
						siteFn, siteBlk = par, b
					}
				}
			}
		}
		if siteFn == nil || c.Parent.Fn != siteFn {
			break
		}
		alts := s.e.GatesAt(siteFn, c.Parent, siteBlk.Index)
		if len(alts) == 0 {
			// the call site itself is unreachable under the current assumptions
			s.gcache[key] = nil
			return nil
		}
		common := map[string]*flow.Term{}
		for i, a := range alts {
			cur := map[string]*flow.Term{}
			for _, g := range a.Gates {
				if g.Loop == "" && g.Call == nil {
					cur[g.Pred.String()] = g.Pred
				} else if g.Loop != "" && g.Call == nil && g.Dom == nil {
					// loop-header facts of enclosing loops arrive as plain gates
				}
			}
			if i == 0 {
				common = cur
			} else {
				for k := range common {
					if _, ok := cur[k]; !ok {
						delete(common, k)
					}
				}
			}
		}
		for _, t := range common {
			outer = append(outer, t)
		}
	}
	var res [][]*flow.Term
	var ctxs []*flow.Ctx
	for _, a := range s.e.GatesAt(fr.Fn, fr.Ctx, blk.Index) {
		ctxs = append(ctxs, a.Ctx)
		fs := append([]*flow.Term{}, outer...)
		for _, g := range a.Gates {
			if g.Call != nil {
				continue
			}
			if g.Loop != "" {
				continue
			}
			fs = append(fs, g.Pred)
		}
		res = append(res, fs)
	}
	if len(res) == 0 {
		// no way to reach this block under the current assumptions (a callee on
		// the way never succeeds): obligations here hold vacuously
		s.gcache[key] = nil
		return nil
	}
	for i := range res {
		res[i] = closeImplications(res[i])
	}
	s.gcache[key] = res
	if s.altCtx == nil {
		s.altCtx = map[string][]*flow.Ctx{}
	}
	s.altCtx[key] = ctxs
	return res
}

func (s *safetyRun) ok(kind, key, where, how string) {
	if s.kinds != nil && !s.kinds[kind] {
		return
	}
	s.n[kind]++
	s.env.R.OK(s.rule+"/"+kind, key, where, how)
}

func (s *safetyRun) fail(kind, key, where, msg string, undecided bool) {
	if s.kinds != nil && !s.kinds[kind] {
		return
	}
	s.n[kind]++
	if undecided {
		s.env.R.Undecided(s.rule+"/"+kind, key, where, msg)
	} else {
		s.env.R.Fail(s.rule+"/"+kind, key, where, msg)
	}
}

func hasNonNilFact(facts []*flow.Term, t *flow.Term) bool {
	ts := t.String()
	for _, f := range facts {
		f = flow.StripConv(f)
		if f.Op == flow.OpBin && f.Name == "!=" {
			a, b := flow.StripConv(f.Args[0]), flow.StripConv(f.Args[1])
			if (a.IsConst("nil") && b.String() == ts) || (b.IsConst("nil") && a.String() == ts) {
				return true
			}
		}
	}
	return false
}

func hasNilErrFact(facts []*flow.Term, call *flow.Term, idx string) bool {
	want := flow.T(flow.OpRes, idx, call).String()
	for _, f := range facts {
		f = flow.StripConv(f)
		if f.Op == flow.OpBin && f.Name == "==" {
			a, b := flow.StripConv(f.Args[0]), flow.StripConv(f.Args[1])
			if (a.IsConst("nil") && b.String() == want) || (b.IsConst("nil") && a.String() == want) {
				return true
			}
		}
	}
	return false
}

// nonNilTerm: t is structurally non-nil, or the facts establish it.
func (s *safetyRun) nonNilTerm(t *flow.Term, facts []*flow.Term) (bool, string) {
	t = flow.StripConv(t)
	switch t.Op {
	case flow.OpNew, flow.OpMake, flow.OpAddr, flow.OpAddrG, flow.OpFunc, flow.OpClosure, flow.OpStruct, flow.OpDeref:
		return true, "freshly allocated / address"
	case flow.OpPhi:
		for _, a := range t.Args {
			if ok, _ := s.nonNilTerm(a, facts); !ok {
				return false, ""
			}
		}
		return len(t.Args) > 0, "all alternatives non-nil"
	case flow.OpIte:
		if v, known := truthFromFacts(t.Args[0], facts); known {
			if v {
				return s.nonNilTerm(t.Args[1], facts)
			}
			return s.nonNilTerm(t.Args[2], facts)
		}
		a, _ := s.nonNilTerm(t.Args[1], facts)
		b, _ := s.nonNilTerm(t.Args[2], facts)
		// ite(x == nil, fresh, x): the else arm is non-nil by its own condition
		c := flow.StripConv(t.Args[0])
		if a && c.Op == flow.OpBin && c.Name == "==" && (flow.Eq(flow.StripConv(c.Args[0]), flow.StripConv(t.Args[2])) || flow.Eq(flow.StripConv(c.Args[1]), flow.StripConv(t.Args[2]))) {
			return true, "defaulted when nil"
		}
		// ite(x != nil, x, fresh): the same idiom with the test the other way round
		if b && c.Op == flow.OpBin && c.Name == "!=" && (flow.Eq(flow.StripConv(c.Args[0]), flow.StripConv(t.Args[1])) || flow.Eq(flow.StripConv(c.Args[1]), flow.StripConv(t.Args[1]))) {
			return true, "defaulted when nil"
		}
		return a && b, "both arms non-nil"
	case flow.OpRes:
		c := flow.StripConv(t.Args[0])
		name := c.Name
		if i := strings.Index(name, "#"); i >= 0 {
			name = name[:i]
		}
		if c.Op == flow.OpCall && libNonNilOnSuccess[name] && t.Name == "0" && hasNilErrFact(facts, c, "1") {
			return true, "library contract: non-nil when its error is nil"
		}
	case flow.OpGlobal:
		// package-level pointer written once by an initialiser with a non-nil value
		if len(t.Args) == 1 {
			if ok, how := s.nonNilTerm(t.Args[0], facts); ok {
				return true, "initialised non-nil: " + how
			}
		}
	}
	if hasNonNilFact(facts, t) {
		return true, "dominating nil test"
	}
	// library contracts (each confirmed by reading the library):
	switch {
	case t.Op == flow.OpCall && (strings.HasPrefix(t.Name, "flag.") || strings.HasSuffix(t.Name, "tools/lib/cmdline.Bytes")):
		return true, "contract: flag / cmdline constructors return non-nil pointers"
	case t.Op == flow.OpInvoke && strings.HasPrefix(t.Name, "Params#"):
		return true, "contract: elliptic.Curve.Params() of a standard-library curve is never nil"
	case t.Op == flow.OpField && t.Name == "PublicKey":
		// a parsed certificate's PublicKey asserted (comma-ok) to a pointer type
		want := "assert[*crypto/ecdsa.PublicKey,ok](" + t.String() + ")"
		for _, f := range facts {
			if strings.Contains(f.String(), want) && f.Op == flow.OpRes && f.Name == "1" {
				return true, "contract: crypto/x509 never stores a typed-nil public key in a parsed certificate"
			}
		}
	case t.Op == flow.OpParam && s.trustedParam(t):
		return true, "precondition: caller-supplied configuration / library object, not untrusted input"
	}
	return false, ""
}

// trustedParam: parameters of entry points that are not untrusted input: the
// options of ParseCcelWithTdQuote and the already-parsed certificate handed to
// PckCertificateExtensions (a nil there is a caller bug, not an input).
func (s *safetyRun) trustedParam(t *flow.Term) bool {
	switch t.Name {
	case "rtmr.ParseCcelWithTdQuote#3", "pcs.PckCertificateExtensions#0":
		return true
	}
	return false
}

func isPtrToStruct(t types.Type) bool {
	p, ok := t.Underlying().(*types.Pointer)
	if !ok {
		return false
	}
	_, ok = p.Elem().Underlying().(*types.Struct)
	return ok
}

func (s *safetyRun) run() {
	env, e := s.env, s.e
	seenLoopFn := map[*ssa.Function]bool{}
	e.Walk(s.entry, false, func(in ssa.Instruction, fr flow.Frame) {
		env.R.Functions[load.FuncName(fr.Fn)] = true
		if fr.Fn.Pkg != nil && strings.Contains(fr.Fn.Pkg.Pkg.Path(), "/proto/") {
			return // generated code: getters are shape-verified nil-safe, the rest is the protobuf runtime's
		}
		if strings.HasPrefix(load.FuncName(fr.Fn), "verify/trust.") {
			return // the getter implementations are the environment of the verifier
		}
		where := env.P.Pos(in.Pos())
		site := fmt.Sprintf("%s@%s|%s%s", load.FuncName(fr.Fn), where, shortCtx(fr.Ctx), s.label)
		if !seenLoopFn[fr.Fn] {
			seenLoopFn[fr.Fn] = true
			s.loops(fr)
		}
		switch x := in.(type) {
		case *ssa.IndexAddr:
			s.index(x, x.X, x.Index, fr, site, where)
		case *ssa.Index:
			s.index(x, x.X, x.Index, fr, site, where)
		case *ssa.Slice:
			s.slice(x, fr, site, where)
		case *ssa.Call:
			if cal := x.Call.StaticCallee(); cal != nil {
				name := cal.String()
				for _, w := range []struct {
					suffix string
					arg    int
					n      int64
				}{{".Uint16", 1, 2}, {".Uint32", 1, 4}, {".Uint64", 1, 8}, {".PutUint16", 1, 2}, {".PutUint32", 1, 4}, {".PutUint64", 1, 8}} {
					if strings.HasPrefix(name, "(encoding/binary.") && strings.HasSuffix(name, w.suffix) {
						b := e.Eval(x.Call.Args[w.arg], fr.Ctx)
						s.need(site+"#len", "B1", where, fmt.Sprintf("%s needs len(arg) >= %d", name, w.n), fr, in.Block(), func(p *prover) bool {
							return p.proveLeq(flow.C(fmt.Sprint(w.n)), flow.N(flow.OpLen, "", b))
						}, "len("+truncate(b.String(), 100)+")")
					}
				}
			}
		case *ssa.TypeAssert:
			if !x.CommaOk {
				t := e.Eval(x.X, fr.Ctx)
				okAll := true
				for _, facts := range s.factsAt(fr, in.Block()) {
					found := false
					want := flow.T(flow.OpRes, "1", flow.T(flow.OpAssert, load.TypeString(x.AssertedType)+",ok", t)).String()
					for _, f := range facts {
						if f.String() == want {
							found = true
						}
					}
					if !found {
						okAll = false
					}
				}
				if okAll {
					s.ok("B3", site+"#assert", where, "dominated by a successful comma-ok assertion")
				} else {
					s.fail("B3", site+"#assert", where, "type assertion without comma-ok on a value not already asserted to "+load.TypeString(x.AssertedType)+": panics on other dynamic types", false)
				}
			}
		case *ssa.Convert:
			s.narrow(x, fr, site, where)
		case *ssa.FieldAddr:
			if isPtrToStruct(x.X.Type()) {
				s.nonNil(x.X, fr, in, site+"#nil:"+fieldName2(x), where)
			}
		case *ssa.UnOp:
			if x.Op == token.MUL {
				switch x.X.(type) {
				case *ssa.Alloc, *ssa.FieldAddr, *ssa.IndexAddr, *ssa.Global:
				default:
					s.nonNil(x.X, fr, in, site+"#deref", where)
				}
			}
		case *ssa.BinOp:
			if x.Op == token.ADD || x.Op == token.SUB || x.Op == token.MUL {
				if b, ok := x.Type().Underlying().(*types.Basic); ok {
					switch b.Kind() {
					case types.Uint8, types.Uint16, types.Uint32, types.Int8, types.Int16, types.Int32:
						_, c1 := x.X.(*ssa.Const)
						_, c2 := x.Y.(*ssa.Const)
						if !(c1 && c2) {
							lo, hi := intRange(b.Kind())
							v := e.Eval(x, fr.Ctx)
							s.need(site+"#wrap", "OV", where, fmt.Sprintf("%s arithmetic must not wrap around", b.Name()), fr, in.Block(), func(p *prover) bool {
								return p.proveLeq(v, flow.C(fmt.Sprint(int64(hi)))) && p.proveLeq(flow.C(fmt.Sprint(int64(lo))), v)
							}, truncate(v.String(), 140))
						}
					}
				}
			}
			if (x.Op == token.QUO || x.Op == token.REM) && isIntType(x.Type()) {
				if c, ok := x.Y.(*ssa.Const); !ok || c.Value == nil || c.Value.String() == "0" {
					s.fail("B3", site+"#div", where, "integer division by a value not known to be non-zero", true)
				}
			}
		case *ssa.Panic:
			s.fail("B3", site+"#panic", where, "explicit panic reachable from an untrusted-input entry point", false)
		case *ssa.MakeSlice:
			if _, ok := x.Len.(*ssa.Const); !ok {
				l := e.Eval(x.Len, fr.Ctx)
				s.need(site+"#makelen", "B3", where, "make with a negative length panics", fr, in.Block(), func(p *prover) bool {
					return p.proveLeq(flow.C("0"), l)
				}, truncate(l.String(), 120))
			}
		}
	})
}

func fieldName2(fa *ssa.FieldAddr) string {
	k, ok := load.FieldKeyOf(fa.X.Type(), fa.Field)
	if !ok {
		return "?"
	}
	return k.Field
}

func isIntType(t types.Type) bool {
	b, ok := t.Underlying().(*types.Basic)
	return ok && b.Info()&types.IsInteger != 0
}

func shortCtx(c *flow.Ctx) string {
	cs := c.CallString()
	if len(cs) > 3 {
		cs = cs[len(cs)-3:]
	}
	return strings.Join(cs, ">")
}

// need proves an arithmetic obligation under every alternative of facts.
func (s *safetyRun) need(key, kind, where, what string, fr flow.Frame, blk *ssa.BasicBlock, prove func(*prover) bool, subject string, retry ...func(*flow.Ctx) func(*prover) bool) {
	fk := fmt.Sprintf("%p/%p/%d", fr.Fn, fr.Ctx, blk.Index)
	for i, facts := range s.factsAt(fr, blk) {
		if !prove(newProver(facts)) {
			// the same obligation with the subject evaluated on this alternative
			// (a lookup helper's result is definite there)
			if cs := s.altCtx[fk]; len(retry) > 0 && i < len(cs) && cs[i] != nil {
				if retry[0](cs[i])(newProver(facts)) {
					continue
				}
			}
			s.fail(kind, key, where, fmt.Sprintf("%s: cannot be shown from the checks that dominate it (subject: %s; call path %s)", what, subject, strings.Join(fr.Ctx.CallString(), " > ")), false)
			return
		}
	}
	s.ok(kind, key, where, "discharged by dominating checks")
}

func (s *safetyRun) nonNil(v ssa.Value, fr flow.Frame, in ssa.Instruction, key, where string) {
	t := s.e.Eval(v, fr.Ctx)
	fk := fmt.Sprintf("%p/%p/%d", fr.Fn, fr.Ctx, in.Block().Index)
	for i, facts := range s.factsAt(fr, in.Block()) {
		ok, _ := s.nonNilTerm(t, facts)
		if !ok {
			// on this alternative a lookup helper's result may be definite
			if cs := s.altCtx[fk]; i < len(cs) && cs[i] != nil {
				if ok2, _ := s.nonNilTerm(s.e.Eval(v, cs[i]), facts); ok2 {
					continue
				}
			}
			s.fail("B2", key, where, fmt.Sprintf("possible nil dereference of %s (call path %s): no dominating nil check, validity check or allocation establishes it is non-nil", truncate(t.String(), 160), strings.Join(fr.Ctx.CallString(), " > ")), false)
			return
		}
	}
	s.ok("B2", key, where, "non-nil")
}

func (s *safetyRun) index(in ssa.Instruction, xv, iv ssa.Value, fr flow.Frame, site, where string) {
	e := s.e
	// arrays with constant index are checked by the compiler
	if _, ok := iv.(*ssa.Const); ok {
		t := xv.Type()
		if p, ok := t.Underlying().(*types.Pointer); ok {
			t = p.Elem()
		}
		if _, ok := t.Underlying().(*types.Array); ok {
			return
		}
	}
	if _, isMap := xv.Type().Underlying().(*types.Map); isMap {
		return
	}
	var x *flow.Term
	if _, isPtr := xv.Type().Underlying().(*types.Pointer); isPtr {
		x = e.Eval(xv, fr.Ctx)
		x = &flow.Term{Op: flow.OpDeref, Args: []*flow.Term{x}, Typ: xv.Type().Underlying().(*types.Pointer).Elem()}
	} else {
		x = e.Eval(xv, fr.Ctx)
	}
	i := e.Eval(iv, fr.Ctx)
	ln := flow.N(flow.OpLen, "", x)
	if n, ok := fixedLen(x); ok {
		ln = flow.C(fmt.Sprint(n))
	}
	s.need(site+"#idx", "B1", where, "index must be within bounds", fr, in.Block(), func(p *prover) bool {
		return p.proveLess(i, ln) && p.proveLeq(flow.C("0"), i)
	}, truncate(x.String(), 90)+"["+truncate(i.String(), 60)+"]", func(c *flow.Ctx) func(*prover) bool {
		x2 := e.Eval(xv, c)
		if _, isPtr := xv.Type().Underlying().(*types.Pointer); isPtr {
			x2 = &flow.Term{Op: flow.OpDeref, Args: []*flow.Term{x2}, Typ: xv.Type().Underlying().(*types.Pointer).Elem()}
		}
		i2 := e.Eval(iv, c)
		ln2 := flow.N(flow.OpLen, "", x2)
		if n, ok := fixedLen(x2); ok {
			ln2 = flow.C(fmt.Sprint(n))
		}
		return func(p *prover) bool { return p.proveLess(i2, ln2) && p.proveLeq(flow.C("0"), i2) }
	})
}

func (s *safetyRun) slice(x *ssa.Slice, fr flow.Frame, site, where string) {
	e := s.e
	if x.Low == nil && x.High == nil {
		return
	}
	var xt *flow.Term
	if p, isPtr := x.X.Type().Underlying().(*types.Pointer); isPtr {
		xt = &flow.Term{Op: flow.OpDeref, Args: []*flow.Term{e.Eval(x.X, fr.Ctx)}, Typ: p.Elem()}
	} else {
		xt = e.Eval(x.X, fr.Ctx)
	}
	ln := flow.N(flow.OpLen, "", xt)
	if n, ok := fixedLen(xt); ok {
		ln = flow.C(fmt.Sprint(n))
	}
	lo, hi := flow.C("0"), ln
	if x.Low != nil {
		lo = e.Eval(x.Low, fr.Ctx)
	}
	if x.High != nil {
		hi = e.Eval(x.High, fr.Ctx)
	}
	s.need(site+"#slice", "B1", where, "slice bounds must satisfy 0 <= low <= high <= len", fr, x.Block(), func(p *prover) bool {
		return p.proveLeq(flow.C("0"), lo) && p.proveLeq(lo, hi) && p.proveLeq(hi, ln)
	}, truncate(xt.String(), 80)+"["+truncate(lo.String(), 50)+":"+truncate(hi.String(), 50)+"]")
}

// narrow: integer conversions that can lose information.
func (s *safetyRun) narrow(x *ssa.Convert, fr flow.Frame, site, where string) {
	from, ok1 := x.X.Type().Underlying().(*types.Basic)
	to, ok2 := x.Type().Underlying().(*types.Basic)
	if !ok1 || !ok2 || from.Info()&types.IsInteger == 0 || to.Info()&types.IsInteger == 0 {
		return
	}
	if _, isConst := x.X.(*ssa.Const); isConst {
		return
	}
	flo, fhi := intRange(from.Kind())
	tlo, thi := intRange(to.Kind())
	if tlo <= flo && fhi <= thi {
		return // widening
	}
	v := s.e.Eval(x.X, fr.Ctx)
	s.need(site+"#narrow", "NC", where, fmt.Sprintf("conversion %s -> %s must not lose information", from.Name(), to.Name()), fr, x.Block(), func(p *prover) bool {
		okLo := tlo <= flo || p.proveLeq(flow.C(fmt.Sprint(int64(tlo))), v)
		okHi := fhi <= thi || p.proveLeq(v, flow.C(fmt.Sprint(int64(thi))))
		return okLo && okHi
	}, truncate(v.String(), 120))
}

func intRange(k types.BasicKind) (lo, hi float64) {
	switch k {
	case types.Int8:
		return math.MinInt8, math.MaxInt8
	case types.Int16:
		return math.MinInt16, math.MaxInt16
	case types.Int32:
		return math.MinInt32, math.MaxInt32
	case types.Int, types.Int64:
		return math.MinInt64, math.MaxInt64
	case types.Uint8:
		return 0, math.MaxUint8
	case types.Uint16:
		return 0, math.MaxUint16
	case types.Uint32:
		return 0, math.MaxUint32
	case types.Uint, types.Uint64, types.Uintptr:
		return 0, math.MaxUint64
	}
	return math.MinInt64, math.MaxInt64
}

// loops: every loop of the function is a counted / range loop (termination).
func (s *safetyRun) loops(fr flow.Frame) {
	g := s.e.GraphOf(fr.Fn, fr.Ctx)
	for _, l := range g.Loops {
		head := fr.Fn.Blocks[l.Head]
		key := fmt.Sprintf("%s#loop%d%s", load.FuncName(fr.Fn), l.Head, s.label)
		where := s.env.P.Pos(head.Instrs[0].Pos())
		if where == "?" {
			for _, in := range head.Instrs {
				if in.Pos().IsValid() {
					where = s.env.P.Pos(in.Pos())
				}
			}
		}
		iff, ok := head.Instrs[len(head.Instrs)-1].(*ssa.If)
		if !ok {
			s.fail("B4", key, where, "loop without an exit test at its head: termination cannot be shown", true)
			continue
		}
		c := flow.StripConv(s.e.Eval(iff.Cond, fr.Ctx))
		okShape := false
		if c.Op == flow.OpBin && (c.Name == "<" || c.Name == "<=") {
			it := flow.StripConv(c.Args[0])
			if it.Op == flow.OpIter {
				if st, ok := flow.ConstInt(it.Args[1]); ok && st > 0 && !strings.Contains(c.Args[1].String(), "iter["+strings.SplitN(it.Name, "/", 2)[0]) {
					okShape = true
				}
			}
		}
		if okShape {
			s.ok("B4", key, where, "counted loop: induction variable with positive constant step and loop-invariant bound")
		} else {
			s.fail("B4", key, where, "loop is not a counted / range loop: "+truncate(c.String(), 160), true)
		}
	}
}

// closeImplications adds the consequent of every implication fact whose
// antecedent conjuncts are all among the facts.
func closeImplications(facts []*flow.Term) []*flow.Term {
	have := map[string]bool{}
	for _, f := range facts {
		have[f.String()] = true
	}
	for changed := true; changed; {
		changed = false
		for _, f := range facts {
			if f.Op != "implies" {
				continue
			}
			all := true
			for _, c := range conjuncts(f.Args[0]) {
				if !have[c.String()] {
					all = false
				}
			}
			if all && !have[f.Args[1].String()] {
				have[f.Args[1].String()] = true
				facts = append(facts, f.Args[1])
				changed = true
			}
		}
	}
	return facts
}

// truthFromFacts: is the boolean term c asserted (or refuted) by the facts?
func truthFromFacts(c *flow.Term, facts []*flow.Term) (val, known bool) {
	cs, ns := c.String(), flow.Not(c).String()
	for _, f := range facts {
		switch f.String() {
		case cs:
			return true, true
		case ns:
			return false, true
		}
	}
	return false, false
}
