package props

import (
	"crypto/sha256"
	"encoding/hex"
	"encoding/pem"
	"fmt"
	"go/ast"
	"go/token"
	"os"
	"path/filepath"
	"strings"

	"golang.org/x/tools/go/ssa"

	"tdxlint/internal/flow"
	"tdxlint/internal/load"
	"tdxlint/internal/pat"
)

func init() { Registry["C02"] = C02 }

// Intel SGX Root CA certificate (DER) SHA-256 fingerprint, as published by
// Intel for the certificate served at certificates.trustedservices.intel.com.
const intelSgxRootCaSHA256 = "44a0196b2b99f889b8e149e95b807a350e7424964399e885a7cbb8ccfab674d3"

// certGates returns the per-certificate gates of one (cert, parent, CN) role pair.
func certGates(env *Env, rule, role string, cert, parent pat.M, cn string) []gateSpec {
	ecdsaSHA256 := env.libConst("crypto/x509", "ECDSAWithSHA256")
	ecdsaKey := env.libConst("crypto/x509", "ECDSA")
	pub := pat.Op(flow.OpAssert, "*crypto/ecdsa.PublicKey,ok", pat.Field(cert, "PublicKey"))
	return []gateSpec{
		{rule: rule, name: role + ".Version", m: pat.Bin("==", pat.Field(cert, "Version"), pat.Const("3")), expect: role + ".Version == 3"},
		{rule: rule, name: role + ".SignatureAlgorithm", m: pat.Bin("==", pat.Field(cert, "SignatureAlgorithm"), pat.Const(ecdsaSHA256)), expect: role + ".SignatureAlgorithm == ECDSAWithSHA256"},
		{rule: rule, name: role + ".PublicKeyAlgorithm", m: pat.Bin("==", pat.Field(cert, "PublicKeyAlgorithm"), pat.Const(ecdsaKey)), expect: role + ".PublicKeyAlgorithm == ECDSA"},
		{rule: rule, name: role + ".PublicKey-type", m: pat.Res("1", pub), expect: role + ".PublicKey is *ecdsa.PublicKey"},
		{rule: rule, name: role + ".curve", m: pat.Bin("==", pat.Field(pat.Invoke("Params", pat.Field(cert, "PublicKey", "Curve")), "Name"), pat.Const(`"P-256"`)), expect: role + " public key curve name == P-256"},
		{rule: rule, name: role + ".CommonName", m: pat.Bin("==", pat.Field(cert, "Subject", "CommonName"), pat.Const(fmt.Sprintf("%q", cn))), expect: fmt.Sprintf("%s.Subject.CommonName == %q", role, cn)},
		{rule: rule, name: role + ".issuer-name", m: pat.Bin("==", pat.Call("(crypto/x509/pkix.Name).String", pat.Field(cert, "Issuer")), pat.Call("(crypto/x509/pkix.Name).String", pat.Field(parent, "Subject"))), expect: role + ".Issuer.String() == parent.Subject.String()"},
		{rule: rule, name: role + ".CheckSignatureFrom", m: pat.Bin("==", pat.Call("(*crypto/x509.Certificate).CheckSignatureFrom", cert, parent), pat.Const("nil")), expect: role + ".CheckSignatureFrom(parent) == nil"},
	}
}

// rootsTerm matches VerifyOptions.Roots: options.TrustedRoots, or a fresh pool when that is nil.
func rootsTerm(opt *flow.Term, poolSite *string) pat.M {
	tr := pat.Is(fieldT(opt, "TrustedRoots"))
	return func(t *flow.Term, b pat.Bind) bool {
		t = flow.StripConv(t)
		if t.Op != flow.OpIte {
			return false
		}
		whenNil, whenSet := t.Args[1], t.Args[2]
		switch {
		case pat.Bin("==", tr, pat.Const("nil"))(t.Args[0], b):
		case pat.Bin("!=", tr, pat.Const("nil"))(t.Args[0], b):
			whenNil, whenSet = whenSet, whenNil
		default:
			return false
		}
		if !tr(whenSet, b) {
			return false
		}
		p := flow.StripConv(whenNil)
		if p.Op != flow.OpCall || !strings.HasPrefix(p.Name, "crypto/x509.NewCertPool#") {
			return false
		}
		*poolSite = p.Name
		return true
	}
}

// C02: trust is anchored in the configured roots and PCK-role certificates.
func C02(env *Env) {
	r := env.R
	r.Explanation = "Must-pass-through + provenance: on every accept path of verify.TdxQuote the three certificates parsed from PEM blocks 0/1/2 of the quote's chain pass the role checks (v3, ECDSA-SHA256, P-256, fixed common name, issuer name, signature from parent; root self-signed) and leaf.Verify runs with Roots = options.TrustedRoots, or a fresh pool holding only the embedded root when that is nil. Who-may-call: every AddCert/AppendCertsFromPEM call site in the repository is enumerated and must be one of the confirmed shapes, so nothing derived from a quote or a response can enter a roots pool. The embedded root is written only by init from the go:embed'ed PEM, whose DER fingerprint equals Intel's SGX Root CA. RootOfTrustToOptions returns nil roots iff no bundle is listed and otherwise a pool fed only from the listed files and inline PEM, with every failure rejecting."
	r.TrustedBase = []string{"crypto/x509 path building and signature checks, encoding/pem", "go/ssa, go/types"}
	r.NotCovered = []string{"x509 path building itself", "the contents of caller-supplied pools"}
	entry := env.fn("verify", "TdxQuote")
	if entry == nil {
		return
	}
	q := quoteOf(entry)
	opt := param(entry, 1)
	chain := pat.Is(q.Chain)
	leaf, inter, root := pemCert(chain, 0), pemCert(chain, 1), pemCert(chain, 2)
	var rootsPool, interPool string
	for _, part := range verifyPartitions(entry) {
		if part.cr && !part.gc {
			continue
		}
		e := env.engine(c01Atoms...)
		for k, v := range part.assume {
			e.Assume[k] = v
		}
		alts := e.EntryPaths(entry, flow.ModeErr)
		for _, u := range e.Undecided {
			r.Undecided("C02/ENGINE", u, "", "engine could not model: "+u)
		}
		if len(alts) == 0 {
			r.Undecided("C02/PATHS", part.name, env.P.Pos(entry.Pos()), "no success alternative found for "+part.name)
			continue
		}
		var specs []gateSpec
		specs = append(specs, certGates(env, "R3/chain", "root", root, root, "Intel SGX Root CA")...)
		specs = append(specs, certGates(env, "R3/chain", "intermediate", inter, root, "Intel SGX PCK Platform CA")...)
		specs = append(specs, certGates(env, "R3/chain", "leaf", leaf, inter, "Intel SGX PCK Certificate")...)
		// PEM extraction: exactly three CERTIFICATE blocks, optional single NUL
		dec := func(hop int) pat.M {
			src := chain
			for i := 0; i < hop; i++ {
				src = pat.Res("1", pat.Call("encoding/pem.Decode", src))
			}
			return pat.Call("encoding/pem.Decode", src)
		}
		for hop := 0; hop < 3; hop++ {
			specs = append(specs,
				gateSpec{rule: "R3/pem", name: fmt.Sprintf("block%d-present", hop), m: pat.Bin("!=", pat.Res("0", dec(hop)), pat.Const("nil")), expect: fmt.Sprintf("PEM block %d of the chain is present", hop)},
				gateSpec{rule: "R3/pem", name: fmt.Sprintf("block%d-type", hop), m: pat.Bin("==", pat.Field(pat.Res("0", dec(hop)), "Type"), pat.Const(`"CERTIFICATE"`)), expect: fmt.Sprintf("PEM block %d has type CERTIFICATE", hop)},
				gateSpec{rule: "R3/pem", name: fmt.Sprintf("block%d-parse", hop), m: pat.Bin("==", pat.Res("1", pat.Call("crypto/x509.ParseCertificate", pat.Field(pat.Res("0", dec(hop)), "Bytes"))), pat.Const("nil")), expect: fmt.Sprintf("x509.ParseCertificate(block %d) error == nil", hop)},
			)
		}
		rem2 := pat.Res("1", dec(2))
		nul := pat.Slice(pat.Op(flow.OpArray, "", pat.Const("0")), "", "")
		specs = append(specs, gateSpec{rule: "R3/pem", name: "trailing-bytes",
			m:      pat.Op("implies", "", pat.NonEmpty(rem2), pat.OneOf(pat.Call("bytes.Equal", rem2, nul), pat.Call("bytes.Equal", nul, rem2))),
			expect: "after the third block: len(rest) != 0 implies bytes.Equal(rest, []byte{0})",
			// the same spread over an alternative: rest is empty, or has one byte and that byte is 0
			alt: func(a *flow.Alt) bool {
				if hasGateAny(a, pat.Empty(rem2)) != nil {
					return true
				}
				return hasGateAny(a, pat.Bin("==", pat.Len(rem2), pat.Const("1"))) != nil &&
					hasGateAny(a, pat.Bin("==", pat.Op(flow.OpIndex, "", rem2, pat.Const("0")), pat.Const("0"))) != nil
			}})
		// x509 path validation of the leaf
		verifyOpts := func(t *flow.Term, b pat.Bind) bool {
			t = flow.StripConv(t)
			if t.Op != flow.OpStruct {
				return false
			}
			okRoots := pat.StructField("Roots", rootsTerm(opt, &rootsPool))(t, b)
			okInter := pat.StructField("Intermediates", pat.Pred(func(x *flow.Term) bool {
				x = flow.StripConv(x)
				if x.Op == flow.OpCall && strings.HasPrefix(x.Name, "crypto/x509.NewCertPool#") {
					interPool = x.Name
					return true
				}
				return false
			}))(t, b)
			okTime := pat.StructField("CurrentTime", optTime(opt, "PckCertChain"))(t, b)
			return okRoots && okInter && okTime
		}
		specs = append(specs, gateSpec{rule: "R3/path", name: "leaf.Verify",
			m:      pat.Bin("==", pat.Res("1", pat.Call("(*crypto/x509.Certificate).Verify", leaf, verifyOpts)), pat.Const("nil")),
			expect: "leaf.Verify(VerifyOptions{Roots: options.TrustedRoots or fresh pool when nil, Intermediates: fresh pool, CurrentTime: options.Now.PckCertChain}) error == nil"})
		specs = append(specs, gateSpec{rule: "R3/ext", name: "PckCertificateExtensions",
			m:      pat.Bin("==", pat.Res("1", pat.Call("pcs.PckCertificateExtensions", leaf)), pat.Const("nil")),
			expect: "pcs.PckCertificateExtensions(leaf) error == nil"})
		env.requireGates(e, alts, part.name, specs)
	}
	env.c02PoolWriters(rootsPool, interPool)
	env.c02EmbeddedRoot()
	env.c02RootOfTrust()
	r.Floor("C02/R3/chain", 72)
	r.Floor("C02/R3/pem", 30)
	r.Floor("C02/R3/path", 3)
	r.Floor("C02/R1/pool-writer", 4)
	r.Floor("C02/R2/embedded", 3)
	r.Floor("C02/R4", 5)
}

// optTime matches options.Now.<field>, allowing the default time set that
// tdxQuoteV4 stores when options.Now is nil (time.Now()).
func optTime(opt *flow.Term, field string) pat.M {
	want := pat.Is(fieldT(opt, "Now", field))
	return func(t *flow.Term, b pat.Bind) bool {
		t = flow.StripConv(t)
		if want(t, b) {
			return true
		}
		if t.Op == flow.OpIte {
			// options.Now defaulted when nil: ite(options.Now == nil, time.Now(), options.Now.<field>),
			// or the same with the test and the arms the other way round
			if pat.Bin("==", pat.Is(fieldT(opt, "Now")), pat.Const("nil"))(t.Args[0], b) {
				return pat.Call("time.Now")(t.Args[1], b) && want(t.Args[2], b)
			}
			if pat.Bin("!=", pat.Is(fieldT(opt, "Now")), pat.Const("nil"))(t.Args[0], b) {
				return pat.Call("time.Now")(t.Args[2], b) && want(t.Args[1], b)
			}
			return false
		}
		if t.Op != flow.OpPhi {
			return false
		}
		hasOpt := false
		for _, a := range t.Args {
			switch {
			case want(a, b):
				hasOpt = true
			case pat.Call("time.Now")(a, b):
			default:
				return false
			}
		}
		return hasOpt
	}
}

// c02PoolWriters: who may add certificates to which pool.
func (env *Env) c02PoolWriters(rootsPool, interPool string) {
	r := env.R
	e := env.engine()
	n := 0
	// the functions on the call tree of the configuration entry point
	belowRoT := map[*ssa.Function]bool{}
	if rotFn := env.P.Func("verify", "RootOfTrustToOptions"); rotFn != nil {
		for _, f := range env.calleesBelow(rotFn) {
			belowRoT[f] = true
		}
	}
	for _, fn := range env.P.Funcs {
		for _, b := range fn.Blocks {
			for _, in := range b.Instrs {
				c, ok := in.(*ssa.Call)
				if !ok {
					continue
				}
				cal := c.Call.StaticCallee()
				if cal == nil {
					continue
				}
				name := cal.String()
				if name != "(*crypto/x509.CertPool).AddCert" && name != "(*crypto/x509.CertPool).AppendCertsFromPEM" && name != "(*crypto/x509.CertPool).AddCertWithConstraint" {
					continue
				}
				n++
				ctx := e.UnknownCtx(fn)
				recv := flow.StripConv(e.Eval(c.Call.Args[0], ctx))
				arg := e.Eval(c.Call.Args[1], ctx)
				where := env.P.Pos(c.Pos())
				key := fmt.Sprintf("%s:%s", load.FuncName(fn), strings.TrimPrefix(name, "(*crypto/x509.CertPool)."))
				switch {
				case recv.Op == flow.OpCall && recv.Name == rootsPool && rootsPool != "":
					// the default roots pool: only the embedded root, unconditionally
					g, isG := flow.StripConv(arg), false
					if g.Op == flow.OpGlobal && g.Name == "verify.trustedRootCertificate" {
						isG = true
					}
					poolCall, _ := recv.Val.(*ssa.Call)
					if isG && poolCall != nil && poolCall.Block() == c.Block() {
						r.OK("C02/R1/pool-writer", key+"#roots", where, "default roots pool receives only the embedded root, in the block that creates it")
					} else {
						r.Fail("C02/R1/pool-writer", key+"#roots", where, "the default trusted-roots pool must receive exactly the embedded trustedRootCertificate; receives "+arg.String())
					}
				case recv.Op == flow.OpCall && recv.Name == interPool && interPool != "":
					r.OK("C02/R1/pool-writer", key+"#intermediates", where, "intermediates pool (not a trust anchor)")
				case belowRoT[fn] && name == "(*crypto/x509.CertPool).AppendCertsFromPEM" && recv.Op == flow.OpCall && strings.HasPrefix(recv.Name, "crypto/x509.NewCertPool#"):
					rot := flow.T(flow.OpParam, "verify.getTrustedRoots#0")
					rotAlt := func(t *flow.Term, b pat.Bind) bool {
						// the parameter as seen from the unknown context (callers) or own
						return t.Op == flow.OpParam && (t.Name == load.FuncName(fn)+"#0" || t.Name == "verify.RootOfTrustToOptions#0")
					}
					_ = rot
					fromFile := pat.Res("0", pat.Call("os.ReadFile", pat.Op(flow.OpIndex, "", pat.Field(rotAlt, "CabundlePaths"), pat.Any())))
					inline := pat.Conv(pat.Op(flow.OpIndex, "", pat.Field(rotAlt, "Cabundles"), pat.Any()))
					if fromFile(arg, pat.Bind{}) || inline(arg, pat.Bind{}) {
						r.OK("C02/R1/pool-writer", key+"#"+where, where, "configured pool receives a listed bundle")
					} else {
						r.Fail("C02/R1/pool-writer", key+"#"+where, where, "the configured roots pool may receive only os.ReadFile(rot.CabundlePaths[i]) or rot.Cabundles[i]; receives "+arg.String())
					}
				default:
					r.Fail("C02/R1/pool-writer", key+"#"+where, where, fmt.Sprintf("unconfirmed writer of a certificate pool: %s(%s, %s)", name, recv, arg))
				}
			}
		}
	}
	r.CallSites += n
}

// c02EmbeddedRoot: the embedded root variable is written once, by init, from the embedded PEM.
func (env *Env) c02EmbeddedRoot() {
	r := env.R
	sp := env.P.SSA[load.RepoPath("verify")]
	if sp == nil {
		return
	}
	g := env.P.Global("verify", "trustedRootCertificate")
	emb := env.P.Global("verify", "defaultRootCertByte")
	if g == nil || emb == nil {
		r.Undecided("C02/R2/embedded", "globals", "", "verify.trustedRootCertificate / defaultRootCertByte not found")
		return
	}
	e := env.engine()
	sts := env.P.GlobalSt[g]
	want := pat.Res("0", pat.Call("crypto/x509.ParseCertificate", pat.Field(pat.Res("0", pat.Call("encoding/pem.Decode", pat.Global("verify.defaultRootCertByte"))), "Bytes")))
	if len(sts) == 1 && strings.HasPrefix(sts[0].Parent().Name(), "init") {
		v := e.Eval(sts[0].Val, e.UnknownCtx(sts[0].Parent()))
		if want(v, pat.Bind{}) {
			r.OK("C02/R2/embedded", "trustedRootCertificate-init", env.P.Pos(sts[0].Pos()), "written once, in init, from ParseCertificate(pem.Decode(defaultRootCertByte).Bytes)")
		} else {
			r.Fail("C02/R2/embedded", "trustedRootCertificate-init", env.P.Pos(sts[0].Pos()), "embedded root must be ParseCertificate(pem.Decode(defaultRootCertByte).Bytes); is "+v.String())
		}
	} else {
		pos := ""
		for _, s := range sts {
			pos += " " + env.P.Pos(s.Pos())
		}
		r.Fail("C02/R2/embedded", "trustedRootCertificate-init", pos, fmt.Sprintf("verify.trustedRootCertificate must be written exactly once, by init; found %d stores at%s", len(sts), pos))
	}
	if n := len(env.P.GlobalSt[emb]); n == 0 {
		r.OK("C02/R2/embedded", "defaultRootCertByte-readonly", "", "no store to the embedded bytes anywhere in the repository")
	} else {
		r.Fail("C02/R2/embedded", "defaultRootCertByte-readonly", env.P.Pos(env.P.GlobalSt[emb][0].Pos()), "the embedded root bytes must never be written")
	}
	// go:embed directive and the file's fingerprint
	pemPath := filepath.Join(env.P.Cfg.Dir, "verify", "trusted_root.pem")
	if !embedDirectiveOf(env.P, emb, "trusted_root.pem") {
		r.Fail("C02/R2/embedded", "go-embed", "verify/verify.go", "defaultRootCertByte must be declared with //go:embed trusted_root.pem")
	} else if b, err := os.ReadFile(pemPath); err != nil {
		r.Fail("C02/R2/embedded", "go-embed", "verify/trusted_root.pem", "embedded root file missing")
	} else {
		blk, _ := pem.Decode(b)
		if blk == nil {
			r.Fail("C02/R2/embedded", "go-embed", "verify/trusted_root.pem", "embedded root is not PEM")
		} else if sum := sha256.Sum256(blk.Bytes); hex.EncodeToString(sum[:]) != intelSgxRootCaSHA256 {
			r.Fail("C02/R2/embedded", "go-embed", "verify/trusted_root.pem", "embedded root certificate is not the Intel SGX Root CA (DER SHA-256 "+hex.EncodeToString(sum[:])+")")
		} else {
			r.OK("C02/R2/embedded", "go-embed", "verify/trusted_root.pem", "go:embed'ed file is the Intel SGX Root CA (DER SHA-256 matches)")
		}
	}
}

// c02RootOfTrust: RootOfTrustToOptions trusts exactly what the config lists.
func (env *Env) c02RootOfTrust() {
	r := env.R
	fn := env.fn("verify", "RootOfTrustToOptions")
	if fn == nil {
		return
	}
	e := env.engine()
	rot := param(fn, 0)
	alts := e.EntryPaths(fn, flow.ModeErr)
	if len(alts) == 0 {
		r.Undecided("C02/R4", "paths", env.P.Pos(fn.Pos()), "no success alternative")
		return
	}
	env.noteAlts(alts)
	nNil, nPool := 0, 0
	for _, a := range alts {
		o := e.Object(a.Results[0], a.Ctx)
		where := env.P.Pos(a.Ret.Pos())
		get := func(f string) *flow.Term {
			for _, fi := range o.Args {
				if fi.Name == f {
					return fi.Args[0]
				}
			}
			return flow.C("?")
		}
		if o.Op != flow.OpStruct {
			r.Undecided("C02/R4", "result", where, "RootOfTrustToOptions result is not a fresh Options object: "+o.String())
			continue
		}
		if !pat.Is(fieldT(rot, "CheckCrl"))(get("CheckRevocations"), nil) || !pat.Is(fieldT(rot, "GetCollateral"))(get("GetCollateral"), nil) {
			r.Fail("C02/R4", "flags", where, fmt.Sprintf("CheckRevocations/GetCollateral must be copied from rot.CheckCrl/rot.GetCollateral; are %s / %s", get("CheckRevocations"), get("GetCollateral")))
		} else {
			r.OK("C02/R4", "flags#"+where, where, "flags copied from the same-named message fields")
		}
		roots := flow.StripConv(get("TrustedRoots"))
		emptyP := pat.Empty(pat.Is(fieldT(rot, "CabundlePaths")))
		emptyB := pat.Empty(pat.Is(fieldT(rot, "Cabundles")))
		has := func(m pat.M, forall bool) bool {
			for _, g := range a.Gates {
				if forall && g.Loop == "" {
					continue
				}
				if m(g.Pred, pat.Bind{}) {
					return true
				}
			}
			return false
		}
		switch {
		case roots.IsConst("nil"):
			nNil++
			if has(emptyP, false) && has(emptyB, false) {
				r.OK("C02/R4", "nil-pool", where, "nil roots only when both bundle lists are empty")
			} else {
				r.Fail("C02/R4", "nil-pool", where, "a nil TrustedRoots (embedded root fallback) may be returned only when rot.CabundlePaths and rot.Cabundles are both empty")
			}
		case roots.Op == flow.OpCall && strings.HasPrefix(roots.Name, "crypto/x509.NewCertPool#"):
			nPool++
			pool := pat.Is(roots)
			file := pat.Op(flow.OpIndex, "", pat.Is(fieldT(rot, "CabundlePaths")), pat.Any())
			okRead := has(pat.Bin("==", pat.Res("1", pat.Call("os.ReadFile", file)), pat.Const("nil")), true)
			okFile := has(pat.Call("(*crypto/x509.CertPool).AppendCertsFromPEM", pool, pat.Res("0", pat.Call("os.ReadFile", file))), true)
			okInline := has(pat.Call("(*crypto/x509.CertPool).AppendCertsFromPEM", pool, pat.Conv(pat.Op(flow.OpIndex, "", pat.Is(fieldT(rot, "Cabundles")), pat.Any()))), true)
			if okRead && okFile && okInline {
				r.OK("C02/R4", "configured-pool", where, "every listed file is read and appended, every inline bundle appended; each failure rejects")
			} else {
				r.Fail("C02/R4", "configured-pool", where, fmt.Sprintf("the configured pool must be fed from every rot.CabundlePaths[i] (read ok=%v, appended ok=%v) and every rot.Cabundles[i] (appended ok=%v) with failures rejecting", okRead, okFile, okInline))
			}
		default:
			r.Fail("C02/R4", "roots", where, "TrustedRoots must be nil or the pool built from the listed bundles; is "+roots.String())
		}
	}
	if nNil == 0 || nPool == 0 {
		r.Fail("C02/R4", "both-arms", env.P.Pos(fn.Pos()), fmt.Sprintf("expected a nil-roots alternative and a configured-pool alternative; found %d / %d", nNil, nPool))
	} else {
		r.OK("C02/R4", "both-arms", env.P.Pos(fn.Pos()), "nil roots and configured pool alternatives both present")
	}
}

// embedDirectiveOf: the declaration of package variable g carries a
// //go:embed directive naming file (resolved through the syntax tree and the
// type-checker's definition of g, not through source text).
func embedDirectiveOf(p *load.Program, g *ssa.Global, file string) bool {
	obj := g.Object()
	for _, pkg := range p.Pkgs {
		if pkg.Types != g.Pkg.Pkg {
			continue
		}
		for _, f := range pkg.Syntax {
			for _, d := range f.Decls {
				gd, ok := d.(*ast.GenDecl)
				if !ok || gd.Tok != token.VAR {
					continue
				}
				for _, sp := range gd.Specs {
					vs, ok := sp.(*ast.ValueSpec)
					if !ok {
						continue
					}
					for _, n := range vs.Names {
						if pkg.TypesInfo.Defs[n] != obj {
							continue
						}
						docs := []*ast.CommentGroup{vs.Doc}
						if !gd.Lparen.IsValid() {
							docs = append(docs, gd.Doc)
						}
						for _, cg := range docs {
							if cg == nil {
								continue
							}
							for _, c := range cg.List {
								if strings.HasPrefix(c.Text, "//go:embed ") {
									for _, w := range strings.Fields(c.Text)[1:] {
										if w == file {
											return true
										}
									}
								}
							}
						}
						return false
					}
				}
			}
		}
	}
	return false
}
