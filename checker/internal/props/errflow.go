package props

import (
	"go/types"

	"golang.org/x/tools/go/ssa"
)

// aggregators are calls whose error result carries their error arguments on.
var aggregators = map[string]bool{
	"go.uber.org/multierr.Combine": true, "go.uber.org/multierr.Append": true, "fmt.Errorf": true,
	"errors.Join": true,
}

func isErrType(t types.Type) bool { return types.Identical(t, types.Universe.Lookup("error").Type()) }

// flowsToReturn reports whether value v reaches the error result of a return
// of its function through phis, interface conversions and aggregator calls.
func flowsToReturn(v ssa.Value) bool {
	seen := map[ssa.Value]bool{}
	var walk func(v ssa.Value) bool
	walk = func(v ssa.Value) bool {
		if seen[v] || v.Referrers() == nil {
			return false
		}
		seen[v] = true
		for _, ref := range *v.Referrers() {
			switch x := ref.(type) {
			case *ssa.Return:
				n := len(x.Results)
				if n > 0 && x.Results[n-1] == v && isErrType(v.Type()) {
					return true
				}
			case *ssa.Phi:
				if walk(x) {
					return true
				}
			case *ssa.MakeInterface:
				if walk(x) {
					return true
				}
			case *ssa.ChangeInterface:
				if walk(x) {
					return true
				}
			case *ssa.Store:
				// element of a varargs array passed to an aggregator
				if ia, ok := x.Addr.(*ssa.IndexAddr); ok && x.Val == v {
					if al, ok := ia.X.(*ssa.Alloc); ok {
						for _, r2 := range *al.Referrers() {
							if sl, ok := r2.(*ssa.Slice); ok {
								for _, r3 := range *sl.Referrers() {
									if c, ok := r3.(*ssa.Call); ok && isAggregator(c) && walk(c) {
										return true
									}
								}
							}
						}
					}
				}
			case *ssa.Call:
				if isAggregator(x) && walk(x) {
					return true
				}
			}
		}
		return false
	}
	return walk(v)
}

func isAggregator(c *ssa.Call) bool {
	cal := c.Call.StaticCallee()
	return cal != nil && aggregators[cal.String()]
}
