package props

import (
	"fmt"
	"go/token"
	"go/types"
	"strings"

	"golang.org/x/tools/go/ssa"

	"tdxlint/internal/check"
	"tdxlint/internal/load"
)

// aggregators are calls whose error result carries their error arguments on.
var aggregators = map[string]bool{
	"go.uber.org/multierr.Combine": true, "go.uber.org/multierr.Append": true, "fmt.Errorf": true,
	"errors.Join": true,
}

func isErrType(t types.Type) bool { return types.Identical(t, types.Universe.Lookup("error").Type()) }

// flowsToReturn reports whether value v reaches the error result of a return
// of its function through phis, interface conversions and aggregator calls.
func flowsToReturn(v ssa.Value) bool {
	seen := map[ssa.Value]bool{}
	var walk func(v ssa.Value) bool
	walk = func(v ssa.Value) bool {
		if seen[v] || v.Referrers() == nil {
			return false
		}
		seen[v] = true
		for _, ref := range *v.Referrers() {
			switch x := ref.(type) {
			case *ssa.Return:
				n := len(x.Results)
				if n > 0 && x.Results[n-1] == v && isErrType(v.Type()) {
					return true
				}
			case *ssa.Phi:
				if walk(x) {
					return true
				}
			case *ssa.MakeInterface:
				if walk(x) {
					return true
				}
			case *ssa.ChangeInterface:
				if walk(x) {
					return true
				}
			case *ssa.Store:
				// a local that lives in memory (a named result a deferred function
				// literal reads): the value stored may be the one a later load returns
				if al, ok := x.Addr.(*ssa.Alloc); ok && x.Val == v && al.Referrers() != nil {
					for _, r2 := range *al.Referrers() {
						if u, ok := r2.(*ssa.UnOp); ok && u.Op == token.MUL && walk(u) {
							return true
						}
					}
				}
				// element of a varargs array passed to an aggregator
				if ia, ok := x.Addr.(*ssa.IndexAddr); ok && x.Val == v {
					if al, ok := ia.X.(*ssa.Alloc); ok {
						for _, r2 := range *al.Referrers() {
							if sl, ok := r2.(*ssa.Slice); ok {
								for _, r3 := range *sl.Referrers() {
									if c, ok := r3.(*ssa.Call); ok && isAggregator(c) && walk(c) {
										return true
									}
								}
							}
						}
					}
				}
			case *ssa.Call:
				if isAggregator(x) && walk(x) {
					return true
				}
			}
		}
		return false
	}
	return walk(v)
}

func isAggregator(c *ssa.Call) bool {
	cal := c.Call.StaticCallee()
	return cal != nil && aggregators[cal.String()]
}

// errorsNotLost: in each of fns, the error result of every call to a
// repository function (or a listed decoder) is consumed — tested against nil,
// returned, or handed to another call — on a def-use path that does not go
// through a loop-carried variable. An error that only reaches its test
// through the phi of a loop header can be overwritten by a later iteration
// before anybody looks at it (`for { …; x, err = f() }; if err != nil`).
func (env *Env) errorsNotLost(rule string, fns []*ssa.Function) {
	r := env.R
	for _, fn := range fns {
		for _, b := range fn.Blocks {
			for _, in := range b.Instrs {
				c, ok := in.(*ssa.Call)
				if !ok {
					continue
				}
				cal := c.Call.StaticCallee()
				if cal == nil || !(env.P.InRepo(cal) || mustCheckLib[cal.String()]) {
					continue
				}
				if cal.Name() == "Close" {
					continue // terminal Close(): its error has no consumer by convention
				}
				res := cal.Signature.Results()
				if res.Len() == 0 || !isErrType(res.At(res.Len()-1).Type()) {
					continue
				}
				var errv ssa.Value
				if res.Len() == 1 {
					errv = c
				} else {
					for _, ref := range *c.Referrers() {
						if ex, ok := ref.(*ssa.Extract); ok && ex.Index == res.Len()-1 {
							errv = ex
						}
					}
				}
				key := load.FuncName(fn) + ">" + load.FuncName(cal)
				where := env.P.Pos(c.Pos())
				if errv == nil {
					r.Fail(rule, key+"#dropped", where, "the error result of "+load.FuncName(cal)+" is discarded")
					continue
				}
				if errConsumedDirectly(errv) {
					r.OK(rule, key+"@"+fmt.Sprint(countKey(r, rule, key)), where, "error tested, returned or passed on before it can be overwritten")
				} else {
					r.Fail(rule, key+"#lost", where, "the error result of "+load.FuncName(cal)+" reaches a test only through a loop-carried variable (or not at all): a later iteration or assignment can overwrite it, so a failure of this call can end in a nil error")
				}
			}
		}
	}
}

// mustCheckLib: library decoders whose error must not be lost either.
var mustCheckLib = map[string]bool{
	"encoding/asn1.Unmarshal": true, "encoding/json.Unmarshal": true, "encoding/hex.DecodeString": true,
	"crypto/x509.ParseCertificate": true, "crypto/x509.ParseRevocationList": true,
}

func countKey(r *check.Result, rule, prefix string) int {
	n := 0
	for _, o := range r.Obligations {
		if o.Rule == rule && strings.HasPrefix(o.Key, rule+"@"+prefix+"@") {
			n++
		}
	}
	return n
}

func isLoopHeader(b *ssa.BasicBlock) bool {
	for _, p := range b.Preds {
		if b.Dominates(p) {
			return true
		}
	}
	return false
}

func errConsumedDirectly(v ssa.Value) bool {
	seen := map[ssa.Value]bool{}
	var walk func(v ssa.Value) bool
	walk = func(v ssa.Value) bool {
		if seen[v] || v.Referrers() == nil {
			return false
		}
		seen[v] = true
		for _, ref := range *v.Referrers() {
			switch x := ref.(type) {
			case *ssa.Return, *ssa.Store, *ssa.Defer, *ssa.Go, *ssa.Panic:
				return true
			case *ssa.BinOp:
				if x.Referrers() != nil && len(*x.Referrers()) > 0 {
					return true
				}
			case *ssa.Call:
				return true
			case *ssa.Phi:
				if isLoopHeader(x.Block()) {
					continue
				}
				if walk(x) {
					return true
				}
			case *ssa.MakeInterface:
				if walk(x) {
					return true
				}
			case *ssa.ChangeInterface:
				if walk(x) {
					return true
				}
			case *ssa.TypeAssert:
				return true
			case *ssa.MakeClosure:
				return true
			}
		}
		return false
	}
	return walk(v)
}

// calleesBelow: the repository functions on the static call tree below the
// entries (including function literals), the entries included.
func (env *Env) calleesBelow(entries ...*ssa.Function) []*ssa.Function {
	seen := map[*ssa.Function]bool{}
	var out []*ssa.Function
	var walk func(fn *ssa.Function)
	walk = func(fn *ssa.Function) {
		if fn == nil || seen[fn] || fn.Blocks == nil || !env.P.InRepo(fn) {
			return
		}
		if fn.Pkg != nil && strings.Contains(fn.Pkg.Pkg.Path(), "/proto/") {
			return
		}
		seen[fn] = true
		out = append(out, fn)
		for _, a := range fn.AnonFuncs {
			walk(a)
		}
		for _, b := range fn.Blocks {
			for _, in := range b.Instrs {
				if c, ok := in.(ssa.CallInstruction); ok {
					walk(c.Common().StaticCallee())
				}
			}
		}
	}
	for _, e := range entries {
		walk(e)
	}
	return out
}

// inPackages filters fns to those declared in one of the repository-relative package paths.
func inPackages(fns []*ssa.Function, pkgs ...string) []*ssa.Function {
	var out []*ssa.Function
	for _, fn := range fns {
		o := fn
		for o.Parent() != nil {
			o = o.Parent()
		}
		if o.Pkg == nil {
			continue
		}
		for _, p := range pkgs {
			if o.Pkg.Pkg.Path() == load.RepoPath(p) {
				out = append(out, fn)
			}
		}
	}
	return out
}
