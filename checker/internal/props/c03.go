package props

import (
	"fmt"
	"strings"

	"tdxlint/internal/flow"
	"tdxlint/internal/load"
	"tdxlint/internal/pat"
)

func init() { Registry["C03"] = C03 }

var verifyAtoms = append([]string{"pcs.TcbInfoURL", "pcs.QeIdentityURL", "pcs.PckCrlURL"}, c01Atoms...)

// collateralDoc describes one signed collateral document.
type collateralDoc struct {
	name      string // rule label
	url       pat.M  // URL term
	phraseVar string // pcs global holding the canonical header key
	phraseLit string
	member    string // JSON member whose raw bytes are signed
	id        string
	version   string
	nowField  string
	valField  []string // Collateral field path of the decoded values
}

func collateralDocs(q quoteTerms) []collateralDoc {
	leaf := pemCert(pat.Is(q.Chain), 0)
	fmspc := pat.Field(pat.Res("0", pat.Call("pcs.PckCertificateExtensions", leaf)), "FMSPC")
	return []collateralDoc{
		{name: "tcbInfo", url: pat.Call("pcs.TcbInfoURL", fmspc), phraseVar: "pcs.TcbInfoIssuerChainPhrase", phraseLit: "TCB-Info-Issuer-Chain", member: "tcbInfo", id: "TDX", version: "3", nowField: "TcbInfo"},
		{name: "qeIdentity", url: pat.Call("pcs.QeIdentityURL"), phraseVar: "pcs.SgxQeIdentityIssuerChainPhrase", phraseLit: "SGX-Enclave-Identity-Issuer-Chain", member: "enclaveIdentity", id: "TD_QE", version: "2", nowField: "QeIdentity"},
	}
}

// findTerm searches all gates of an alternative for a sub-term matching m.
func findTerm(a *flow.Alt, m pat.M) *flow.Term {
	var found *flow.Term
	for _, g := range a.Gates {
		g.Pred.Walk(func(t *flow.Term) bool {
			if found != nil {
				return false
			}
			if m(t, pat.Bind{}) {
				found = t
				return false
			}
			return true
		})
		if found != nil {
			break
		}
	}
	return found
}

// docTerms resolves the provenance terms of a document's response on one alternative.
type docTerms struct {
	resp, body, decBody, raw, decRaw, sig, signer, root *flow.Term
}

func resolveDoc(a *flow.Alt, d collateralDoc) (docTerms, string) {
	var t docTerms
	t.resp = findTerm(a, pat.Invoke("Get", pat.Any(), d.url))
	if t.resp == nil {
		return t, "no Getter.Get call with the expected URL term"
	}
	t.body = flow.T(flow.OpRes, "1", t.resp)
	t.decBody = flow.T(flow.OpCall, "decode:encoding/json.Unmarshal", t.body)
	t.raw = flow.T(flow.OpConv, "[]byte", flow.T(flow.OpRes, "0", flow.T(flow.OpLookup, "", t.decBody, flow.C(fmt.Sprintf("%q", d.member)))))
	t.decRaw = flow.T(flow.OpCall, "decode:encoding/json.Unmarshal", t.raw)
	t.sig = fieldT(t.decBody, "Signature")
	return t, ""
}

// C03: collateral counts only if authentically signed by Intel's TCB signer.
func C03(env *Env) {
	r := env.R
	r.Explanation = "For both collateral documents (TCB Info, QE Identity) and every accept path with GetCollateral: the issuer chain comes from exactly one URL-unescaped header value holding exactly two PEM certificates; root is self-signed 'Intel SGX Root CA', signer is 'Intel SGX TCB Signing' issued by it and path-validated to the trusted roots at the document's own time; signer.CheckSignature(ECDSA-SHA256) covers the raw bytes of the exactly-named JSON member of the same response body with the signature field of that body; and every decoded value that any later gate consumes is decoded from those very raw bytes (the only things taken from the enclosing body are the raw member and the signature). id/version/non-empty-levels and completeness gates are enforced."
	r.TrustedBase = []string{"encoding/json (case-insensitive field matching, last duplicate wins — the reason rule R3 exists), encoding/hex, net/url, encoding/pem, crypto/x509", "go/ssa, go/types"}
	r.NotCovered = []string{"JSON / hex decoding behaviour beyond the stated contract"}
	entry := env.fn("verify", "TdxQuote")
	if entry == nil {
		return
	}
	q := quoteOf(entry)
	opt := param(entry, 1)
	ecdsaSHA256 := env.libConst("crypto/x509", "ECDSAWithSHA256")
	for _, part := range verifyPartitions(entry) {
		if !part.gc {
			continue
		}
		e := env.engine(verifyAtoms...)
		for k, v := range part.assume {
			e.Assume[k] = v
		}
		alts := e.EntryPaths(entry, flow.ModeErr)
		for _, u := range e.Undecided {
			r.Undecided("C03/ENGINE", u, "", "engine could not model: "+u)
		}
		if len(alts) == 0 {
			r.Undecided("C03/PATHS", part.name, env.P.Pos(entry.Pos()), "no success alternative found for "+part.name)
			continue
		}
		for _, d := range collateralDocs(q) {
			for ai, a := range alts {
				dt, why := resolveDoc(a, d)
				if why != "" {
					r.Fail("C03/R0/"+d.name, "response|"+part.name, env.P.Pos(a.Ret.Pos()), fmt.Sprintf("accept path #%d has %s for %s", ai, why, d.name))
					break
				}
				resp := pat.Is(dt.resp)
				hdr := pat.Op(flow.OpLookup, "", pat.Res("0", resp), pat.Global(d.phraseVar))
				hv := pat.Op(flow.OpIndex, "", pat.Res("0", hdr), pat.Const("0"))
				unesc := pat.Call("net/url.QueryUnescape", hv)
				chain := pat.Conv(pat.Res("0", unesc))
				dec0 := pat.Call("encoding/pem.Decode", chain)
				dec1 := pat.Call("encoding/pem.Decode", pat.Res("1", dec0))
				signer, root := pemCert(chain, 0), pemCert(chain, 1)
				specs := []gateSpec{
					{rule: "R1/" + d.name, name: "get-ok", m: pat.Bin("==", pat.Res("2", resp), pat.Const("nil")), expect: "Getter.Get(url) error == nil"},
					{rule: "R1/" + d.name, name: "header-present", m: pat.Res("1", hdr), expect: "issuer-chain header present"},
					{rule: "R1/" + d.name, name: "header-single", m: pat.Bin("==", pat.Len(pat.Res("0", hdr)), pat.Const("1")), expect: "exactly one issuer-chain header value"},
					{rule: "R1/" + d.name, name: "header-unescape", m: pat.Bin("==", pat.Res("1", unesc), pat.Const("nil")), expect: "url.QueryUnescape(header value) error == nil"},
					{rule: "R1/" + d.name, name: "pem0-present", m: pat.Bin("!=", pat.Res("0", dec0), pat.Const("nil")), expect: "first PEM block present"},
					{rule: "R1/" + d.name, name: "pem0-more", m: pat.NonEmpty(pat.Res("1", dec0)), expect: "bytes remain after the first PEM block"},
					{rule: "R1/" + d.name, name: "pem0-type", m: pat.Bin("==", pat.Field(pat.Res("0", dec0), "Type"), pat.Const(`"CERTIFICATE"`)), expect: "first block is a CERTIFICATE"},
					{rule: "R1/" + d.name, name: "pem1-present", m: pat.Bin("!=", pat.Res("0", dec1), pat.Const("nil")), expect: "second PEM block present"},
					{rule: "R1/" + d.name, name: "pem1-last", m: pat.Empty(pat.Res("1", dec1)), expect: "nothing remains after the second PEM block"},
					{rule: "R1/" + d.name, name: "pem1-type", m: pat.Bin("==", pat.Field(pat.Res("0", dec1), "Type"), pat.Const(`"CERTIFICATE"`)), expect: "second block is a CERTIFICATE"},
				}
				specs = append(specs, certGates(env, "R1/"+d.name, "issuer-root", root, root, "Intel SGX Root CA")...)
				specs = append(specs, certGates(env, "R1/"+d.name, "signer", signer, root, "Intel SGX TCB Signing")...)
				var rp, ip string
				vopts := func(t *flow.Term, b pat.Bind) bool {
					t = flow.StripConv(t)
					return t.Op == flow.OpStruct && pat.StructField("Roots", rootsTerm(opt, &rp))(t, b) &&
						pat.StructField("CurrentTime", optTime(opt, d.nowField))(t, b) &&
						pat.StructField("Intermediates", pat.Pred(func(x *flow.Term) bool {
							x = flow.StripConv(x)
							ip = x.Name
							return x.Op == flow.OpCall && strings.HasPrefix(x.Name, "crypto/x509.NewCertPool#")
						}))(t, b)
				}
				specs = append(specs, gateSpec{rule: "R1/" + d.name, name: "signer.Verify",
					m:      pat.Bin("==", pat.Res("1", pat.Call("(*crypto/x509.Certificate).Verify", signer, vopts)), pat.Const("nil")),
					expect: "signer.Verify(VerifyOptions{Roots: trusted roots, CurrentTime: options.Now." + d.nowField + "}) error == nil"})
				// R2: signature over the raw member
				raw, sig := pat.Is(dt.raw), pat.Is(dt.sig)
				hexd := pat.Call("encoding/hex.DecodeString", sig)
				der := pat.Call("abi.SignatureToDER", pat.Res("0", hexd))
				lookupRaw := pat.Op(flow.OpLookup, "", pat.Is(dt.decBody), pat.Const(fmt.Sprintf("%q", d.member)))
				specs = append(specs,
					gateSpec{rule: "R2/" + d.name, name: "body-nonempty", m: pat.NonEmpty(pat.Is(dt.body)), expect: "len(response body) != 0"},
					gateSpec{rule: "R2/" + d.name, name: "raw-member-present", m: pat.Res("1", lookupRaw), expect: fmt.Sprintf("raw JSON member %q present in the body", d.member)},
					gateSpec{rule: "R2/" + d.name, name: "sig-hex", m: pat.Bin("==", pat.Res("1", hexd), pat.Const("nil")), expect: "hex.DecodeString(signature) error == nil"},
					gateSpec{rule: "R2/" + d.name, name: "sig-der", m: pat.Bin("==", pat.Res("1", der), pat.Const("nil")), expect: "abi.SignatureToDER(signature) error == nil"},
					gateSpec{rule: "R2/" + d.name, name: "CheckSignature",
						m:      pat.Bin("==", pat.Call("(*crypto/x509.Certificate).CheckSignature", signer, pat.Const(ecdsaSHA256), raw, pat.Res("0", der)), pat.Const("nil")),
						expect: fmt.Sprintf("signer.CheckSignature(ECDSAWithSHA256, raw bytes of member %q of this response, DER(hex(signature of this response))) == nil", d.member)},
				)
				// R4: id / version / levels, decoded from the raw member
				dr := pat.Is(dt.decRaw)
				specs = append(specs,
					gateSpec{rule: "R4/" + d.name, name: "id", m: pat.Bin("==", pat.Field(dr, "ID"), pat.Const(fmt.Sprintf("%q", d.id))), expect: fmt.Sprintf("%s.id == %q (decoded from the signed member)", d.name, d.id)},
					gateSpec{rule: "R4/" + d.name, name: "version", m: pat.Bin("==", pat.Field(dr, "Version"), pat.Const(d.version)), expect: fmt.Sprintf("%s.version == %s (decoded from the signed member)", d.name, d.version)},
					gateSpec{rule: "R4/" + d.name, name: "levels-nonempty", m: pat.NonEmpty(pat.Field(dr, "TcbLevels")), expect: d.name + ".tcbLevels non-empty (decoded from the signed member)"},
					gateSpec{rule: "R4/" + d.name, name: "raw-nonnil", m: pat.Bin("!=", raw, pat.Const("nil")), expect: "raw member bytes != nil (collateral completeness)"},
					gateSpec{rule: "R4/" + d.name, name: "signer-nonnil", m: pat.Bin("!=", signer, pat.Const("nil")), expect: "signing certificate != nil (collateral completeness)"},
					gateSpec{rule: "R4/" + d.name, name: "root-nonnil", m: pat.Bin("!=", root, pat.Const("nil")), expect: "issuer root certificate != nil (collateral completeness)"},
				)
				env.requireGates(e, []*flow.Alt{a}, fmt.Sprintf("%s|alt%d", part.name, ai), specs)
				// R3: nothing but the raw member and the signature is taken from the enclosing body
				env.c03SignedBytesOnly(e, a, d, dt, fmt.Sprintf("%s|alt%d", part.name, ai))
				// the intermediates pool of a collateral signer must stay empty of quote-derived certs (C02 rule covers writers)
				_ = ip
			}
			env.c03Phrase(d)
		}
	}
	r.Floor("C03/R1/tcbInfo", 50)
	r.Floor("C03/R1/qeIdentity", 50)
	r.Floor("C03/R2/tcbInfo", 10)
	r.Floor("C03/R2/qeIdentity", 10)
	r.Floor("C03/R3/tcbInfo", 2)
	r.Floor("C03/R3/qeIdentity", 2)
	r.Floor("C03/R4/tcbInfo", 12)
	r.Floor("C03/R4/qeIdentity", 12)
}

// c03SignedBytesOnly walks every gate of the alternative: a value decoded
// from the enclosing response body may only be the raw member (map lookup by
// the exact name) or the signature field.
func (env *Env) c03SignedBytesOnly(e *flow.Engine, a *flow.Alt, d collateralDoc, dt docTerms, part string) {
	r := env.R
	rule := "C03/R3/" + d.name
	decBody := dt.decBody.String()
	bad := ""
	badPos := ""
	uses := 0
	signedUses := 0
	for _, g := range a.Gates {
		var visit func(t, parent *flow.Term)
		visit = func(t, parent *flow.Term) {
			if t.String() == decBody {
				uses++
				ok := false
				if parent != nil {
					switch {
					case parent.Op == flow.OpField && parent.Name == "Signature":
						ok = true
					case parent.Op == flow.OpLookup:
						ok = true
					}
				}
				if !ok && bad == "" {
					ps := "<gate>"
					if parent != nil {
						ps = parent.String()
						if len(ps) > 300 {
							ps = ps[:300] + "…"
						}
					}
					bad = ps
					badPos = env.P.Pos(g.Pos)
				}
				return
			}
			if t.String() == dt.decRaw.String() {
				signedUses++
			}
			for _, x := range t.Args {
				visit(x, t)
			}
		}
		visit(g.Pred, nil)
	}
	if bad != "" {
		r.Fail(rule, "body-decoded-value|"+part, badPos, fmt.Sprintf("a value that drives the verdict is decoded from the enclosing %s response body instead of the signature-checked raw member %q: %s", d.name, d.member, bad))
		return
	}
	if signedUses == 0 {
		r.Fail(rule, "no-signed-consumer|"+part, env.P.Pos(a.Ret.Pos()), "no gate consumes values decoded from the signed raw member of "+d.name)
		return
	}
	r.OK(rule, "signed-bytes-only|"+part, env.P.Pos(a.Ret.Pos()), fmt.Sprintf("%d uses of values decoded from the signed member; %d uses of the enclosing body, all raw-member lookup or signature", signedUses, uses))
}

// c03Phrase: the header key global is initialised once to the canonical form of the documented header.
func (env *Env) c03Phrase(d collateralDoc) {
	r := env.R
	i := strings.Index(d.phraseVar, ".")
	sp := env.P.SSA[load.RepoPath(d.phraseVar[:i])]
	if sp == nil {
		return
	}
	g := env.P.Global(d.phraseVar[:i], d.phraseVar[i+1:])
	if g == nil {
		r.Undecided("C03/R1/"+d.name, "phrase-var", "", d.phraseVar+" not found")
		return
	}
	e := env.engine()
	sts := env.P.GlobalSt[g]
	if len(sts) != 1 || !strings.HasPrefix(sts[0].Parent().Name(), "init") {
		r.Fail("C03/R1/"+d.name, "phrase-var", "", fmt.Sprintf("%s must be initialised exactly once by the package initialiser; %d stores", d.phraseVar, len(sts)))
		return
	}
	v := e.Eval(sts[0].Val, e.UnknownCtx(sts[0].Parent()))
	if pat.Call("net/http.CanonicalHeaderKey", pat.Const(fmt.Sprintf("%q", d.phraseLit)))(v, pat.Bind{}) {
		r.OK("C03/R1/"+d.name, "phrase-var", env.P.Pos(sts[0].Pos()), d.phraseVar+" = http.CanonicalHeaderKey("+d.phraseLit+")")
	} else {
		r.Fail("C03/R1/"+d.name, "phrase-var", env.P.Pos(sts[0].Pos()), d.phraseVar+" must be http.CanonicalHeaderKey(\""+d.phraseLit+"\"); is "+v.String())
	}
}
