package props

import (
	"tdxlint/internal/flow"
)

// Tiny propositional layer over gates: every plain gate is a unit clause,
// every implication gate a clause; atoms are canonical term strings.

type literal struct {
	atom string
	pos  bool
}

func litOf(t *flow.Term) literal {
	switch {
	case t.Op == flow.OpUn && t.Name == "!":
		l := litOf(t.Args[0])
		l.pos = !l.pos
		return l
	case t.Op == flow.OpBin && t.Name == "!=":
		return literal{flow.T(flow.OpBin, "==", t.Args[0], t.Args[1]).String(), false}
	case t.Op == flow.OpBin && t.Name == "<=":
		// a <= b  is  !(b < a)
		return literal{flow.T(flow.OpBin, "<", t.Args[1], t.Args[0]).String(), false}
	}
	return literal{t.String(), true}
}

func conjuncts(t *flow.Term) []*flow.Term {
	if t.Op == flow.OpBin && t.Name == "&&" {
		return append(conjuncts(t.Args[0]), conjuncts(t.Args[1])...)
	}
	return []*flow.Term{t}
}

func clausesOf(a *flow.Alt) [][]literal {
	var cs [][]literal
	for _, g := range a.Gates {
		if g.Loop != "" || g.Call != nil {
			continue
		}
		if g.Pred.Op == "implies" {
			var c []literal
			for _, x := range conjuncts(g.Pred.Args[0]) {
				l := litOf(x)
				l.pos = !l.pos
				c = append(c, l)
			}
			c = append(c, litOf(g.Pred.Args[1]))
			cs = append(cs, c)
			continue
		}
		cs = append(cs, []literal{litOf(g.Pred)})
	}
	return cs
}

// unsat reports whether unit propagation derives a contradiction from the
// alternative's gates plus the extra assumptions.
func unsat(a *flow.Alt, extra ...*flow.Term) bool {
	cs := clausesOf(a)
	for _, x := range extra {
		cs = append(cs, []literal{litOf(x)})
	}
	cs = append(cs, orderLemmas(a, extra)...)
	val := map[string]bool{}
	for changed := true; changed; {
		changed = false
		for _, c := range cs {
			var open []literal
			sat := false
			for _, l := range c {
				v, ok := val[l.atom]
				switch {
				case !ok:
					open = append(open, l)
				case v == l.pos:
					sat = true
				}
			}
			if sat {
				continue
			}
			if len(open) == 0 {
				return true
			}
			if len(open) == 1 {
				val[open[0].atom] = open[0].pos
				changed = true
			}
		}
	}
	return false
}

// feasible drops alternatives whose own gates are contradictory.
func feasible(alts []*flow.Alt) []*flow.Alt {
	var out []*flow.Alt
	for _, a := range alts {
		if !unsat(a) {
			out = append(out, a)
		}
	}
	return out
}

// hasGate reports whether the alternative has a (plain or forall) gate matching m.
func hasGate(a *flow.Alt, m func(*flow.Term) bool, forall bool) *flow.Gate {
	for _, g := range a.Gates {
		if forall != (g.Loop != "") {
			continue
		}
		if m(g.Pred) {
			return g
		}
	}
	return nil
}

// orderLemmas adds the integer facts unit propagation cannot see: an atom
// "c == x" and an atom "c2 < x" (or "x < c2") over the same x and integer
// literals cannot both hold when the literals contradict them.
func orderLemmas(a *flow.Alt, extra []*flow.Term) [][]literal {
	type eqAtom struct {
		atom string
		x    string
		c    int64
	}
	type ltAtom struct {
		atom  string
		x     string
		c     int64
		xLeft bool // x < c (otherwise c < x)
	}
	var eqs []eqAtom
	var lts []ltAtom
	seen := map[string]bool{}
	var visit func(t *flow.Term)
	visit = func(t *flow.Term) {
		t = flow.StripConv(t)
		switch {
		case t.Op == flow.OpUn && t.Name == "!":
			visit(t.Args[0])
			return
		case t.Op == "implies" || (t.Op == flow.OpBin && (t.Name == "&&" || t.Name == "||")):
			for _, x := range t.Args {
				visit(x)
			}
			return
		case t.Op != flow.OpBin || len(t.Args) != 2:
			return
		}
		name, x, y := t.Name, t.Args[0], t.Args[1]
		switch name {
		case "!=":
			name = "=="
		case "<=":
			name, x, y = "<", y, x // a <= b is !(b < a): the atom is b < a
		}
		atom := flow.T(flow.OpBin, name, x, y).String()
		if seen[atom] {
			return
		}
		seen[atom] = true
		cx, okx := flow.ConstInt(x)
		cy, oky := flow.ConstInt(y)
		switch {
		case name == "==" && okx && !oky:
			eqs = append(eqs, eqAtom{atom, flow.StripConv(y).String(), cx})
		case name == "==" && oky && !okx:
			eqs = append(eqs, eqAtom{atom, flow.StripConv(x).String(), cy})
		case name == "<" && okx && !oky:
			lts = append(lts, ltAtom{atom, flow.StripConv(y).String(), cx, false})
		case name == "<" && oky && !okx:
			lts = append(lts, ltAtom{atom, flow.StripConv(x).String(), cy, true})
		}
	}
	for _, g := range a.Gates {
		if g.Loop == "" && g.Call == nil && g.Pred != nil {
			visit(g.Pred)
		}
	}
	for _, t := range extra {
		visit(t)
	}
	var out [][]literal
	for _, e := range eqs {
		for _, l := range lts {
			if e.x != l.x {
				continue
			}
			holds := (l.xLeft && e.c < l.c) || (!l.xLeft && l.c < e.c)
			if holds {
				out = append(out, []literal{{e.atom, false}, {l.atom, true}}) // x == c implies the order atom
			} else {
				out = append(out, []literal{{e.atom, false}, {l.atom, false}}) // they exclude each other
			}
		}
	}
	return out
}
