// Package load loads the repository under analysis with go/packages, builds
// go/ssa for every repository package, and precomputes the whole-program
// indices the engines share (static callers, field stores, global stores).
package load

import (
	"fmt"
	"go/token"
	"go/types"
	"os"
	"sort"
	"strings"

	"golang.org/x/tools/go/packages"
	"golang.org/x/tools/go/ssa"
	"golang.org/x/tools/go/ssa/ssautil"
)

// RepoModule is the module path of the repository under analysis.
const RepoModule = "github.com/google/go-tdx-guest"

// Config selects the build configuration to analyse.
type Config struct {
	Dir    string
	GOOS   string
	GOARCH string
	Tags   string
}

func (c Config) String() string {
	s := c.GOOS + "/" + c.GOARCH
	if c.Tags != "" {
		s += " tags=" + c.Tags
	}
	return s
}

// FieldKey names a struct field by its declaring named type and field name.
type FieldKey struct {
	Type  string // types.TypeString of the named struct, e.g. "github.com/google/go-tdx-guest/verify.Options"
	Field string
}

func (k FieldKey) String() string { return k.Type + "." + k.Field }

// Program is the loaded, type-checked, SSA-built repository.
type Program struct {
	Cfg      Config
	Fset     *token.FileSet
	Pkgs     []*packages.Package
	Prog     *ssa.Program
	SSA      map[string]*ssa.Package // by import path, repository packages only
	Funcs    []*ssa.Function         // every repository function incl. anonymous, deterministic order
	Callers  map[*ssa.Function][]ssa.CallInstruction
	FieldSt  map[FieldKey][]*ssa.Store // stores through FieldAddr, whole repository
	GlobalSt map[*ssa.Global][]*ssa.Store
	// rename-robust anchors (anchors.go)
	Renamed        map[string]*ssa.Function
	RenamedGlobals map[string]*ssa.Global
	AliasNotes     []string
}

// Load loads ./... of cfg.Dir. Any load or type error is fatal: a check must
// never pass because nothing was analysed.
func Load(cfg Config) (*Program, error) {
	env := append(os.Environ(), "GOWORK=off", "GOFLAGS=-mod=mod", "GOPROXY=off", "GOSUMDB=off", "GOTOOLCHAIN=local", "CGO_ENABLED=0")
	if cfg.GOOS != "" {
		env = append(env, "GOOS="+cfg.GOOS)
	}
	if cfg.GOARCH != "" {
		env = append(env, "GOARCH="+cfg.GOARCH)
	}
	pc := &packages.Config{
		Mode:  packages.LoadSyntax,
		Dir:   cfg.Dir,
		Env:   env,
		Tests: false,
		Fset:  token.NewFileSet(),
	}
	if cfg.Tags != "" {
		pc.BuildFlags = []string{"-tags=" + cfg.Tags}
	}
	pkgs, err := packages.Load(pc, "./...")
	if err != nil {
		return nil, fmt.Errorf("packages.Load: %v", err)
	}
	if len(pkgs) == 0 {
		return nil, fmt.Errorf("no packages loaded from %s", cfg.Dir)
	}
	var errs []string
	packages.Visit(pkgs, nil, func(p *packages.Package) {
		for _, e := range p.Errors {
			errs = append(errs, e.Error())
		}
	})
	if len(errs) > 0 {
		return nil, fmt.Errorf("load/type errors (%d): %s", len(errs), strings.Join(errs, "; "))
	}
	sort.Slice(pkgs, func(i, j int) bool { return pkgs[i].PkgPath < pkgs[j].PkgPath })
	prog, spkgs := ssautil.Packages(pkgs, ssa.InstantiateGenerics)
	p := &Program{
		Cfg: cfg, Fset: pc.Fset, Pkgs: pkgs, Prog: prog,
		SSA:      map[string]*ssa.Package{},
		Callers:  map[*ssa.Function][]ssa.CallInstruction{},
		FieldSt:  map[FieldKey][]*ssa.Store{},
		GlobalSt: map[*ssa.Global][]*ssa.Store{},
	}
	for i, sp := range spkgs {
		if sp == nil {
			return nil, fmt.Errorf("no SSA package for %s", pkgs[i].PkgPath)
		}
		p.SSA[pkgs[i].PkgPath] = sp
	}
	prog.Build()
	p.index()
	p.resolveAliases()
	return p, nil
}

// InRepo reports whether fn has a body belonging to the repository.
func (p *Program) InRepo(fn *ssa.Function) bool {
	if fn == nil || fn.Blocks == nil {
		return false
	}
	pk := fn.Package()
	if pk == nil && fn.Parent() != nil {
		return p.InRepo(fn.Parent())
	}
	if pk == nil && fn.Origin() != nil {
		pk = fn.Origin().Package()
	}
	if pk == nil {
		return false
	}
	_, ok := p.SSA[pk.Pkg.Path()]
	return ok
}

func (p *Program) index() {
	seen := map[*ssa.Function]bool{}
	var add func(fn *ssa.Function)
	add = func(fn *ssa.Function) {
		if fn == nil || seen[fn] || fn.Blocks == nil {
			return
		}
		seen[fn] = true
		p.Funcs = append(p.Funcs, fn)
		for _, a := range fn.AnonFuncs {
			add(a)
		}
	}
	paths := make([]string, 0, len(p.SSA))
	for k := range p.SSA {
		paths = append(paths, k)
	}
	sort.Strings(paths)
	for _, path := range paths {
		sp := p.SSA[path]
		names := make([]string, 0, len(sp.Members))
		for n := range sp.Members {
			names = append(names, n)
		}
		sort.Strings(names)
		for _, n := range names {
			switch m := sp.Members[n].(type) {
			case *ssa.Function:
				add(m)
			case *ssa.Type:
				for _, T := range []types.Type{m.Type(), types.NewPointer(m.Type())} {
					ms := p.Prog.MethodSets.MethodSet(T)
					for i := 0; i < ms.Len(); i++ {
						add(p.Prog.MethodValue(ms.At(i)))
					}
				}
			}
		}
	}
	// keep only repository functions (method sets may pull promoted wrappers)
	fs := p.Funcs[:0]
	for _, fn := range p.Funcs {
		if p.InRepo(fn) {
			fs = append(fs, fn)
		}
	}
	p.Funcs = fs
	for _, fn := range p.Funcs {
		for _, b := range fn.Blocks {
			for _, in := range b.Instrs {
				switch x := in.(type) {
				case ssa.CallInstruction:
					if cal := x.Common().StaticCallee(); cal != nil {
						p.Callers[cal] = append(p.Callers[cal], x)
					}
				case *ssa.Store:
					switch a := x.Addr.(type) {
					case *ssa.FieldAddr:
						if k, ok := FieldKeyOf(a.X.Type(), a.Field); ok {
							p.FieldSt[k] = append(p.FieldSt[k], x)
						}
					case *ssa.Global:
						p.GlobalSt[a] = append(p.GlobalSt[a], x)
					}
				}
			}
		}
	}
}

// FieldKeyOf resolves (pointer-to-)struct type t and field index to a FieldKey.
func FieldKeyOf(t types.Type, idx int) (FieldKey, bool) {
	if ptr, ok := t.Underlying().(*types.Pointer); ok {
		t = ptr.Elem()
	}
	st, ok := t.Underlying().(*types.Struct)
	if !ok || idx >= st.NumFields() {
		return FieldKey{}, false
	}
	return FieldKey{Type: types.TypeString(t, nil), Field: st.Field(idx).Name()}, true
}

// Func returns the package-level function pkg.name (pkg is an import path
// relative to the repository module, "" for the root).
func (p *Program) Func(pkg, name string) *ssa.Function {
	sp := p.SSA[RepoPath(pkg)]
	if sp == nil {
		return nil
	}
	if f := sp.Func(name); f != nil {
		return f
	}
	return p.Renamed[pkg+"."+name]
}

// Method returns the method (T or *T).name of named type pkg.typ.
func (p *Program) Method(pkg, typ, name string) *ssa.Function {
	sp := p.SSA[RepoPath(pkg)]
	if sp == nil {
		return nil
	}
	t := sp.Type(typ)
	if t == nil {
		return nil
	}
	for _, T := range []types.Type{t.Type(), types.NewPointer(t.Type())} {
		if sel := p.Prog.MethodSets.MethodSet(T).Lookup(sp.Pkg, name); sel != nil {
			return p.Prog.MethodValue(sel)
		}
	}
	return nil
}

// RepoPath turns a repository-relative package path into an import path.
func RepoPath(rel string) string {
	if rel == "" {
		return RepoModule
	}
	return RepoModule + "/" + rel
}

// Pos renders a position relative to the repository root.
func (p *Program) Pos(pos token.Pos) string {
	if !pos.IsValid() {
		return "?"
	}
	ps := p.Fset.Position(pos)
	f := ps.Filename
	if i := strings.Index(f, p.Cfg.Dir+"/"); i == 0 {
		f = f[len(p.Cfg.Dir)+1:]
	}
	return fmt.Sprintf("%s:%d", f, ps.Line)
}

// FuncName is a short stable name for fn: pkg.Func, pkg.(T).Method, or parent$N.
func FuncName(fn *ssa.Function) string {
	if fn == nil {
		return "<nil>"
	}
	if a, ok := funcAlias.Load(fn); ok {
		return a.(string)
	}
	if par := fn.Parent(); par != nil {
		// function literal of a structurally resolved function: parent$N
		if _, ok := funcAlias.Load(outermost(par)); ok {
			return FuncName(par) + strings.TrimPrefix(rawFuncName(fn), rawFuncName(par))
		}
	}
	return rawFuncName(fn)
}

func outermost(fn *ssa.Function) *ssa.Function {
	for fn.Parent() != nil {
		fn = fn.Parent()
	}
	return fn
}

// TypeString with repository module prefix elided.
func TypeString(t types.Type) string {
	return strings.ReplaceAll(types.TypeString(t, nil), RepoModule+"/", "")
}
