package load

import (
	_ "embed"
	"encoding/json"
	"fmt"
	"go/token"
	"go/types"
	"sort"
	"strings"
	"sync"

	"golang.org/x/tools/go/ssa"
)

// Rename-robust anchors.
//
// The rule tables name unexported helpers of the repository (they were
// confirmed by reading on the reference tree). A behaviour-preserving rename
// of such a helper must not raise an alarm, so every unexported package-level
// function and variable also has a *structural locator* recorded from the
// reference tree (anchors.json, regenerated with `tdxlint -gen-anchors`):
//
//   function: an exported root of the same package and, per step, the
//             signature of the next callee and its ordinal among the distinct
//             same-package callees with that signature, in source order;
//   variable: its type and its ordinal among the package's variables of that
//             type, in declaration order.
//
// When a recorded name is absent from the loaded program the locator is
// followed; if it leads to exactly one function (variable) whose own name is
// not a recorded one, that object is given the recorded name as an alias:
// FuncName / GlobalName report the alias, Program.Func finds it, and every
// rule, obligation key and known-finding key keeps working. A locator that
// does not resolve leaves the anchor missing, which the checks report.

//go:embed anchors.json
var anchorsJSON []byte

type anchorStep struct {
	Sig string `json:"sig"`
	Idx int    `json:"idx"`
}

type funcAnchor struct {
	Root  string       `json:"root"` // FuncName of an exported function / method, main or init
	Steps []anchorStep `json:"steps"`
}

type globalAnchor struct {
	Type string `json:"type"`
	Idx  int    `json:"idx"`
}

type anchorTable struct {
	Funcs   map[string]funcAnchor   `json:"funcs"`
	Globals map[string]globalAnchor `json:"globals"`
}

var (
	funcAlias   sync.Map // *ssa.Function -> recorded name
	globalAlias sync.Map // *ssa.Global -> recorded name
)

func sigString(fn *ssa.Function) string {
	return TypeString(fn.Signature)
}

// callees lists the distinct same-package static callees of fn (including
// those called from its function literals) in source order of first call.
func (p *Program) callees(fn *ssa.Function) []*ssa.Function {
	type site struct {
		pos token.Pos
		fn  *ssa.Function
	}
	var sites []site
	var walk func(f *ssa.Function)
	walk = func(f *ssa.Function) {
		for _, b := range f.Blocks {
			for _, in := range b.Instrs {
				if c, ok := in.(ssa.CallInstruction); ok {
					if cal := c.Common().StaticCallee(); cal != nil && cal.Pkg != nil && cal.Pkg == fn.Pkg && cal.Parent() == nil {
						sites = append(sites, site{in.Pos(), cal})
					}
				}
			}
		}
		for _, a := range f.AnonFuncs {
			walk(a)
		}
	}
	walk(fn)
	sort.SliceStable(sites, func(i, j int) bool { return sites[i].pos < sites[j].pos })
	seen := map[*ssa.Function]bool{}
	var out []*ssa.Function
	for _, s := range sites {
		if !seen[s.fn] && s.fn != fn {
			seen[s.fn] = true
			out = append(out, s.fn)
		}
	}
	return out
}

func isRoot(fn *ssa.Function) bool {
	if fn.Parent() != nil || fn.Pkg == nil {
		return false
	}
	if fn.Signature.Recv() != nil {
		return token.IsExported(fn.Name())
	}
	return token.IsExported(fn.Name()) || fn.Name() == "main"
}

func rawFuncName(fn *ssa.Function) string {
	return strings.ReplaceAll(fn.String(), RepoModule+"/", "")
}

func skipAnchorPkg(path string) bool {
	return strings.Contains(path, "/proto/") || strings.HasSuffix(path, "/testing") || strings.Contains(path, "/testing/")
}

// GenAnchors computes the locator table of the loaded program.
func (p *Program) GenAnchors() ([]byte, error) {
	tab := anchorTable{Funcs: map[string]funcAnchor{}, Globals: map[string]globalAnchor{}}
	for path, sp := range p.SSA {
		if skipAnchorPkg(path) {
			continue
		}
		// functions: breadth-first from the roots, roots in name order
		var roots []*ssa.Function
		for _, fn := range p.Funcs {
			if fn.Pkg == sp && isRoot(fn) {
				roots = append(roots, fn)
			}
		}
		sort.Slice(roots, func(i, j int) bool { return rawFuncName(roots[i]) < rawFuncName(roots[j]) })
		type item struct {
			fn    *ssa.Function
			root  string
			steps []anchorStep
		}
		seen := map[*ssa.Function]bool{}
		var queue []item
		for _, r := range roots {
			seen[r] = true
			queue = append(queue, item{r, rawFuncName(r), nil})
		}
		for len(queue) > 0 {
			it := queue[0]
			queue = queue[1:]
			cs := p.callees(it.fn)
			cnt := map[string]int{}
			for _, c := range cs {
				sig := sigString(c)
				idx := cnt[sig]
				cnt[sig]++
				if seen[c] {
					continue
				}
				seen[c] = true
				steps := append(append([]anchorStep{}, it.steps...), anchorStep{sig, idx})
				if c.Signature.Recv() == nil && !token.IsExported(c.Name()) {
					tab.Funcs[rawFuncName(c)] = funcAnchor{Root: it.root, Steps: steps}
				}
				queue = append(queue, item{c, it.root, steps})
			}
		}
		// variables
		var gs []*ssa.Global
		for _, m := range sp.Members {
			if g, ok := m.(*ssa.Global); ok && g.Pos().IsValid() {
				gs = append(gs, g)
			}
		}
		sort.Slice(gs, func(i, j int) bool { return gs[i].Pos() < gs[j].Pos() })
		cnt := map[string]int{}
		for _, g := range gs {
			ty := TypeString(g.Type())
			idx := cnt[ty]
			cnt[ty]++
			if !token.IsExported(g.Name()) {
				tab.Globals[rawGlobalName(g)] = globalAnchor{Type: ty, Idx: idx}
			}
		}
	}
	return json.MarshalIndent(tab, "", " ")
}

func rawGlobalName(g *ssa.Global) string {
	return strings.TrimPrefix(g.Pkg.Pkg.Path(), RepoModule+"/") + "." + g.Name()
}

// resolveAliases follows the locator of every recorded name that is absent
// from the loaded program.
func (p *Program) resolveAliases() {
	var tab anchorTable
	if err := json.Unmarshal(anchorsJSON, &tab); err != nil {
		return
	}
	p.Renamed = map[string]*ssa.Function{}
	p.RenamedGlobals = map[string]*ssa.Global{}
	byName := map[string]*ssa.Function{}
	for _, fn := range p.Funcs {
		if fn.Parent() == nil {
			byName[rawFuncName(fn)] = fn
		}
	}
	names := make([]string, 0, len(tab.Funcs))
	for n := range tab.Funcs {
		names = append(names, n)
	}
	sort.Strings(names)
	taken := map[*ssa.Function]bool{}
	for _, n := range names {
		if byName[n] != nil {
			continue
		}
		a := tab.Funcs[n]
		cur := byName[a.Root]
		for _, st := range a.Steps {
			if cur == nil {
				break
			}
			var next *ssa.Function
			k := 0
			for _, c := range p.callees(cur) {
				if sigString(c) == st.Sig {
					if k == st.Idx {
						next = c
						break
					}
					k++
				}
			}
			cur = next
		}
		if cur == nil || taken[cur] {
			continue
		}
		if _, recorded := tab.Funcs[rawFuncName(cur)]; recorded || cur.Signature.Recv() != nil || token.IsExported(cur.Name()) {
			continue // the locator ends at a function that has its own identity
		}
		taken[cur] = true
		funcAlias.Store(cur, n)
		p.Renamed[n] = cur
		p.AliasNotes = append(p.AliasNotes, fmt.Sprintf("%s resolved structurally to %s", n, rawFuncName(cur)))
	}
	// variables
	for path, sp := range p.SSA {
		if skipAnchorPkg(path) {
			continue
		}
		var gs []*ssa.Global
		for _, m := range sp.Members {
			if g, ok := m.(*ssa.Global); ok && g.Pos().IsValid() {
				gs = append(gs, g)
			}
		}
		sort.Slice(gs, func(i, j int) bool { return gs[i].Pos() < gs[j].Pos() })
		prefix := strings.TrimPrefix(path, RepoModule+"/") + "."
		for n, a := range tab.Globals {
			if !strings.HasPrefix(n, prefix) || strings.Contains(n[len(prefix):], ".") {
				continue
			}
			if _, ok := sp.Members[n[len(prefix):]].(*ssa.Global); ok {
				continue
			}
			k := 0
			for _, g := range gs {
				if TypeString(g.Type()) != a.Type {
					continue
				}
				if k == a.Idx {
					if _, recorded := tab.Globals[rawGlobalName(g)]; !recorded && !token.IsExported(g.Name()) {
						globalAlias.Store(g, n)
						p.RenamedGlobals[n] = g
						p.AliasNotes = append(p.AliasNotes, fmt.Sprintf("%s resolved structurally to %s", n, rawGlobalName(g)))
					}
					break
				}
				k++
			}
		}
	}
	sort.Strings(p.AliasNotes)
}

// GlobalName is the stable name of a package-level variable: pkg.name, or the
// recorded name it was resolved to.
func GlobalName(g *ssa.Global) string {
	if a, ok := globalAlias.Load(g); ok {
		return a.(string)
	}
	if g.Pkg == nil {
		return g.Name()
	}
	return rawGlobalName(g)
}

// Global returns the package-level variable pkg.name (or the one resolved to it).
func (p *Program) Global(pkg, name string) *ssa.Global {
	sp := p.SSA[RepoPath(pkg)]
	if sp == nil {
		return nil
	}
	if g, ok := sp.Members[name].(*ssa.Global); ok {
		return g
	}
	return p.RenamedGlobals[pkg+"."+name]
}

var _ = types.Universe
