// Package check holds the result model shared by all property checkers and
// writes evidence, replay files and the VIOLATION / KNOWN-FINDING lines.
package check

import (
	"encoding/json"
	"fmt"
	"os"
	"path/filepath"
	"sort"
	"strings"
	"time"
)

// Obligation is one enumerated proof obligation (rule instance).
type Obligation struct {
	Key    string `json:"key"`  // rule + construct, stable across line changes
	Rule   string `json:"rule"` // rule id, e.g. C01/GATE/attest-sig
	Where  string `json:"where,omitempty"`
	How    string `json:"how,omitempty"` // how it was discharged
	OK     bool   `json:"ok"`
	Detail string `json:"detail,omitempty"`
}

// Violation is an undischarged obligation (or an undecided construct).
type Violation struct {
	Key     string   `json:"key"`
	Rule    string   `json:"rule"`
	Where   string   `json:"where"`
	Msg     string   `json:"msg"`
	Kind    string   `json:"kind"` // "violation" | "undecided" | "vacuous"
	Witness []string `json:"witness,omitempty"`
	Expect  string   `json:"expected,omitempty"`
}

// Result is what a property checker produces.
type Result struct {
	Property     string
	Explanation  string
	TrustedBase  []string
	NotCovered   []string
	Assumptions  []string
	Obligations  []Obligation
	Violations   []Violation
	Floors       map[string]int // rule -> confirmed minimum instance count
	Functions    map[string]bool
	CallSites    int
	BuildConfigs []string
	Extra        map[string]any
}

// NewResult creates an empty result.
func NewResult(id string) *Result {
	return &Result{Property: id, Floors: map[string]int{}, Functions: map[string]bool{}, Extra: map[string]any{}}
}

// OK records a discharged obligation.
func (r *Result) OK(rule, construct, where, how string) {
	r.Obligations = append(r.Obligations, Obligation{Key: rule + "@" + construct, Rule: rule, Where: where, How: how, OK: true})
}

// Fail records a violation of rule at construct.
func (r *Result) Fail(rule, construct, where, msg string, witness ...string) {
	r.fail("violation", rule, construct, where, msg, witness)
}

// Undecided records a construct the checker could not certify.
func (r *Result) Undecided(rule, construct, where, msg string, witness ...string) {
	r.fail("undecided", rule, construct, where, msg, witness)
}

func (r *Result) fail(kind, rule, construct, where, msg string, witness []string) {
	key := rule + "@" + construct
	for _, v := range r.Violations {
		if v.Key == key {
			return
		}
	}
	r.Obligations = append(r.Obligations, Obligation{Key: key, Rule: rule, Where: where, OK: false, Detail: msg})
	r.Violations = append(r.Violations, Violation{Key: key, Rule: rule, Where: where, Msg: msg, Kind: kind, Witness: witness})
}

// Floor sets the confirmed minimum number of instances of rule.
func (r *Result) Floor(rule string, n int) { r.Floors[rule] = n }

// Count returns the number of obligations (discharged or not) of rule.
func (r *Result) Count(rule string) int {
	n := 0
	for _, o := range r.Obligations {
		if o.Rule == rule {
			n++
		}
	}
	return n
}

// Merge appends another result's obligations and violations (used for build
// configuration matrices; keys are de-duplicated).
func (r *Result) Merge(o *Result, cfg string) {
	seen := map[string]bool{}
	for _, ob := range r.Obligations {
		seen[ob.Key] = true
	}
	for _, ob := range o.Obligations {
		if !seen[ob.Key] {
			r.Obligations = append(r.Obligations, ob)
			seen[ob.Key] = true
		}
	}
	for _, v := range o.Violations {
		dup := false
		for _, w := range r.Violations {
			if w.Key == v.Key {
				dup = true
			}
		}
		if !dup {
			if cfg != "" {
				v.Msg += " [" + cfg + "]"
			}
			r.Violations = append(r.Violations, v)
		}
	}
	for f := range o.Functions {
		r.Functions[f] = true
	}
	r.CallSites += o.CallSites
}

// Include adds the obligations another property's rules produced, as rules of
// this property: rule Cyy/R becomes Cxx/VIA-Cyy/R. Used where a property's
// statement depends on a mechanism another property's rules already decide
// (e.g. the event-log gates of C18 are the verification and validation whose
// structure C01 and C08 decide).
func (r *Result) Include(o *Result) {
	ren := func(rule string) string {
		return r.Property + "/VIA-" + rule
	}
	for _, ob := range o.Obligations {
		ob.Key = ren(ob.Key)
		ob.Rule = ren(ob.Rule)
		r.Obligations = append(r.Obligations, ob)
	}
	for _, v := range o.Violations {
		v.Key = ren(v.Key)
		v.Rule = ren(v.Rule)
		r.Violations = append(r.Violations, v)
	}
	for k, n := range o.Floors {
		r.Floors[ren(k)] = n
	}
	for f := range o.Functions {
		r.Functions[f] = true
	}
	r.CallSites += o.CallSites
	add := func(dst *[]string, src []string) {
		for _, s := range src {
			dup := false
			for _, d := range *dst {
				if d == s {
					dup = true
				}
			}
			if !dup {
				*dst = append(*dst, s)
			}
		}
	}
	add(&r.TrustedBase, o.TrustedBase)
	add(&r.Assumptions, o.Assumptions)
}

// checkFloors turns a rule that matched fewer instances than confirmed into a
// violation: a rule matching nothing must not pass forever.
func (r *Result) checkFloors() {
	rules := make([]string, 0, len(r.Floors))
	for k := range r.Floors {
		rules = append(rules, k)
	}
	sort.Strings(rules)
	for _, rule := range rules {
		got := r.Count(rule)
		if got < r.Floors[rule] {
			hasViol := false
			for _, v := range r.Violations {
				if v.Rule == rule || strings.HasPrefix(v.Rule, rule) {
					hasViol = true
				}
			}
			if !hasViol {
				r.fail("vacuous", rule, "instance-floor", "", fmt.Sprintf("rule %s matched %d instances; %d were confirmed on the reference tree — the rule no longer sees what it is meant to check", rule, got, r.Floors[rule]), nil)
			}
		}
	}
}

// KnownFinding is an entry of known_findings.json.
type KnownFinding struct {
	Property string `json:"property"`
	Key      string `json:"key"`
	Status   string `json:"status"` // "known" | "fixed"
	Commit   string `json:"commit,omitempty"`
	What     string `json:"what"`
}

// LoadKnown reads the committed known-findings file.
func LoadKnown(path string) ([]KnownFinding, error) {
	b, err := os.ReadFile(path)
	if err != nil {
		if os.IsNotExist(err) {
			return nil, nil
		}
		return nil, err
	}
	var f struct {
		Findings []KnownFinding `json:"findings"`
	}
	if err := json.Unmarshal(b, &f); err != nil {
		return nil, err
	}
	return f.Findings, nil
}

// Finish prints the report lines, writes evidence and replay files and
// returns the process exit code.
func (r *Result) Finish(verifDir, tier string, seed int, start time.Time, known []KnownFinding, cmd string) int {
	r.checkFloors()
	replayDir := filepath.Join(verifDir, "evidence", "replay")
	os.MkdirAll(replayDir, 0o755)
	// remove stale replay files of this property
	old, _ := filepath.Glob(filepath.Join(replayDir, r.Property+"-*.json"))
	for _, f := range old {
		os.Remove(f)
	}
	exit := 0
	nViol := 0
	knownHit := 0
	for i, v := range r.Violations {
		isKnown := false
		for _, k := range known {
			if k.Property == r.Property && k.Status == "known" && k.Key == v.Key {
				fmt.Printf("KNOWN-FINDING: property=%s %s (%s)\n", r.Property, k.What, v.Key)
				isKnown = true
				knownHit++
			}
		}
		if isKnown {
			continue
		}
		nViol++
		path := filepath.Join(replayDir, fmt.Sprintf("%s-%d.json", r.Property, i+1))
		rb, _ := json.MarshalIndent(map[string]any{
			"property": r.Property, "key": v.Key, "rule": v.Rule, "where": v.Where, "kind": v.Kind,
			"message": v.Msg, "witness": v.Witness, "expected": v.Expect,
			"replay": "bin/tdxlint -explain " + path,
		}, "", " ")
		os.WriteFile(path, rb, 0o644)
		fmt.Printf("%s: rule %s: %s", v.Where, v.Rule, v.Msg)
		if v.Kind != "violation" {
			fmt.Printf(" [kind=%s]", v.Kind)
		}
		fmt.Println()
		for _, w := range v.Witness {
			fmt.Println("    " + w)
		}
		fmt.Printf("VIOLATION property=%s replay=%s\n", r.Property, path)
		exit = 1
	}
	// evidence
	discharged := 0
	perRule := map[string]int{}
	for _, o := range r.Obligations {
		if o.OK {
			discharged++
		}
		perRule[o.Rule]++
	}
	samples := []any{}
	// sample: first obligation of every rule, then fill up to 40
	seenRule := map[string]bool{}
	for _, o := range r.Obligations {
		if !seenRule[o.Rule] {
			seenRule[o.Rule] = true
			samples = append(samples, o)
		}
	}
	for _, o := range r.Obligations {
		if len(samples) >= 40 {
			break
		}
		samples = append(samples, o)
	}
	fns := make([]string, 0, len(r.Functions))
	for f := range r.Functions {
		fns = append(fns, f)
	}
	sort.Strings(fns)
	cov := map[string]any{
		"explanation":        r.Explanation,
		"obligations":        len(r.Obligations),
		"discharged":         discharged,
		"rule_instances":     perRule,
		"instance_floors":    r.Floors,
		"functions_analysed": len(fns),
		"functions":          fns,
		"call_sites":         r.CallSites,
		"build_configs":      r.BuildConfigs,
		"samples":            samples,
		"exhaustive":         true,
		"checker_cmd":        cmd,
		"trusted_base":       r.TrustedBase,
		"not_covered":        r.NotCovered,
		"known_findings_hit": knownHit,
	}
	for k, v := range r.Extra {
		cov[k] = v
	}
	ev := map[string]any{
		"property_id": r.Property,
		"tier":        tier,
		"seed":        seed,
		"level":       "other",
		"coverage":    cov,
		"assumptions": append([]string{}, r.Assumptions...),
		"wall_s":      time.Since(start).Seconds(),
		"violations":  nViol,
	}
	eb, _ := json.MarshalIndent(ev, "", " ")
	os.MkdirAll(filepath.Join(verifDir, "evidence"), 0o755)
	if err := os.WriteFile(filepath.Join(verifDir, "evidence", r.Property+".json"), eb, 0o644); err != nil {
		fmt.Fprintln(os.Stderr, "cannot write evidence:", err)
		return 2
	}
	fmt.Printf("%s %s: %d obligations, %d discharged, %d violations, %d known findings, %d functions, %.1fs\n",
		r.Property, tier, len(r.Obligations), discharged, nViol, knownHit, len(fns), time.Since(start).Seconds())
	return exit
}
