#!/usr/bin/env python3
"""Whole-repository benign variants: behaviour-preserving rewrites applied to a
scratch copy of the CURRENT /repo tree, after which every claimed check must
stay silent. Complements the per-property benign entries of corpus/*.json.

  python3 selftest/benign_global.py [variant-substring] [property]

Nothing from the repository is executed; the scratch copy is only type-checked
and analysed by bin/tdxlint, then removed. Exit 0 if all silent, 3 otherwise.
"""
import json, os, re, shutil, subprocess, sys, tempfile, glob, concurrent.futures

VERIF = os.path.dirname(os.path.dirname(os.path.abspath(__file__)))
REPO = os.environ.get("TDX_REPO", "/repo")
BIN = os.path.join(VERIF, "bin", "tdxlint")
GOFMT = shutil.which("gofmt") or "/usr/local/go/bin/gofmt"

def src_files(root):
    out = []
    for d, _, fs in os.walk(root):
        if "/.git" in d or "/proto" in d[len(root):] or "/testing" in d[len(root):]:
            continue
        for f in fs:
            if f.endswith(".go") and not f.endswith("_test.go") and not f.endswith(".pb.go"):
                out.append(os.path.join(d, f))
    return sorted(out)

def gofmt_r(rule):
    def t(root):
        for f in src_files(root):
            subprocess.run([GOFMT, "-r", rule, "-w", f], check=True, capture_output=True)
    return t

def idents(mapping):
    """rename identifiers everywhere (declarations, uses, selectors) with gofmt -r"""
    def t(root):
        for f in src_files(root):
            for a, b in mapping.items():
                subprocess.run([GOFMT, "-r", f"{a} -> {b}", "-w", f], check=True, capture_output=True)
    return t

def sed(pattern, repl, only=None):
    def t(root):
        for f in src_files(root):
            if only and not re.search(only, f):
                continue
            s = open(f).read()
            n = re.sub(pattern, repl, s)
            if n != s:
                open(f, "w").write(n)
    return t

def rename_unexported(pkgdir, suffix):
    """rename every unexported top-level function of one package (non-test files)"""
    def t(root):
        d = os.path.join(root, pkgdir)
        files = [f for f in src_files(root) if os.path.dirname(f) == d]
        names = set()
        for f in files:
            for m in re.finditer(r"^func ([a-z][A-Za-z0-9_]*)\(", open(f).read(), re.M):
                if m.group(1) not in ("init", "main"):
                    names.add(m.group(1))
        for f in files:
            s = open(f).read()
            for n in sorted(names, key=len, reverse=True):
                s = re.sub(r"(?<![A-Za-z0-9_.\"])" + n + r"(?=\()", n + suffix, s)
                s = re.sub(r"(?<![A-Za-z0-9_.\"])" + n + r"(?=[,)\n ])", lambda m: m.group(0), s)
            open(f, "w").write(s)
        # test files of the package would need the same rename; the loader ignores them
    return t

def add_logging(root):
    """a debug log line at the top of every function body that has an error result"""
    for f in src_files(root):
        if "/tools/" in f or "/client" in f or "/rtmr" in f:
            continue
        s = open(f).read()
        if '"github.com/google/logger"' not in s:
            continue
        s = re.sub(r"(\nfunc [^\n]*\) error \{\n)", "\\1\tlogger.V(3).Info(\"enter\")\n", s)
        open(f, "w").write(s)

VARIANTS = {
    "nil-on-left": gofmt_r("a != nil -> nil != a"),
    "eq-nil-on-left": gofmt_r("a == nil -> nil == a"),
    "gt-as-lt": gofmt_r("a > b -> b < a"),
    "ge-as-le": gofmt_r("a >= b -> b <= a"),
    "not-equal-as-negated-equal": gofmt_r("!bytes.Equal(a, b) -> bytes.Equal(a, b) == false"),
    "len-zero-on-left": gofmt_r("len(a) == 0 -> 0 == len(a)"),
    "error-texts": sed(r'fmt\.Errorf\("', 'fmt.Errorf("tdx: '),
    "errors-new-texts": sed(r'errors\.New\("', 'errors.New("tdx: '),
    "rename-verify-helpers": rename_unexported("verify", "Impl"),
    "rename-abi-helpers": rename_unexported("abi", "Impl"),
    "rename-validate-helpers": rename_unexported("validate", "Impl"),
    "rename-pcs-helpers": rename_unexported("pcs", "Impl"),
    "entry-logging": add_logging,
    "rename-client-helpers": rename_unexported("client", "Impl"),
    "rename-rtmr-helpers": rename_unexported("rtmr", "Impl"),
    "rename-check-helpers": rename_unexported("tools/check", "Impl"),
    "rename-trust-helpers": rename_unexported("verify/trust", "Impl"),
    "rename-globals": idents({"trustedRootCertificate": "intelRootCert", "defaultRootCertByte": "intelRootPEM",
                              "sgxTcbComponentOidPrefix": "tcbComponentPrefix", "tdxGuestPath": "guestDevicePath",
                              "config": "cfg", "minqesvn": "minQeSvnFlag", "mrtd": "mrTdFlag", "mrtdS": "mrTdFlagS"}),
    "rename-params": idents({"options": "vopts", "rot": "rootOfTrust", "policy": "pol", "reportData": "userData", "rtmrIndex": "register"}),
    "rename-option-fields": idents({"chain": "pckChain", "collateral": "fetched", "pckCertExtensions": "pckExt"}),
}

def claimed():
    m = json.load(open(os.path.join(VERIF, "MANIFEST.json")))
    return [c["property_id"] for c in m["checks"]]

def run_variant(name, props):
    tmp = tempfile.mkdtemp(prefix="tdxlint-ben-")
    try:
        dst = os.path.join(tmp, "repo")
        shutil.copytree(REPO, dst, ignore=shutil.ignore_patterns(".git"))
        VARIANTS[name](dst)
        r = subprocess.run(["diff", "-rq", REPO, dst, "-x", ".git"], capture_output=True, text=True)
        changed = len([l for l in r.stdout.splitlines() if l.startswith("Files")])
        bad = []
        for p in props:
            r = subprocess.run([BIN, "-property", p, "-repo", dst, "-no-evidence"], capture_output=True, text=True)
            if r.returncode != 0:
                lines = [l for l in (r.stdout + r.stderr).splitlines() if "rule " in l or "error" in l.lower()]
                bad.append((p, r.returncode, lines[:3]))
        return name, changed, bad
    finally:
        shutil.rmtree(tmp, ignore_errors=True)

def main():
    sel = sys.argv[1] if len(sys.argv) > 1 else ""
    props = [sys.argv[2]] if len(sys.argv) > 2 else claimed()
    names = [n for n in VARIANTS if sel in n]
    fails = 0
    with concurrent.futures.ThreadPoolExecutor(max_workers=int(os.environ.get("SELFTEST_JOBS", "4"))) as ex:
        for name, changed, bad in ex.map(lambda n: run_variant(n, props), names):
            print(f"  [{'ok' if not bad else 'FAIL'}] {name}: {changed} files rewritten, {len(props)} checks")
            for p, rc, lines in bad:
                fails += 1
                print(f"      {p} rc={rc}")
                for l in lines:
                    print("        " + l[:260])
    if fails:
        print("CHECKER-SELFTEST-FAIL benign_global")
        sys.exit(3)

if __name__ == "__main__":
    main()
