#!/bin/bash
# ingest_benign.sh <src_dir> <id> <property>
# Confirms a sub-agent's behaviour-preserving refactoring in a scratch worktree of
# /repo (outside /repo and /verif): the patch applies, the repository builds and
# the unedited suite passes. Then stores it under /verif/benign/<id>/.
set -u
export GOFLAGS=-mod=mod GOPROXY=off GOSUMDB=off GOTOOLCHAIN=local
src=$1; id=$2; prop=$3
wt=$(mktemp -d /tmp/confirm-XXXXXX); rmdir $wt
git -C /repo worktree add -q --detach $wt HEAD || exit 2
cleanup() { git -C /repo worktree remove --force $wt 2>/dev/null; rm -rf $wt; }
trap cleanup EXIT
cd $wt
git apply $src/patch.diff || { echo "$id: PATCH DOES NOT APPLY"; exit 3; }
b=fail; s=fail
if go build ./... 2>/tmp/ingestb_${id}_build.log; then b=ok; fi
if go test -vet=off -count=1 ./... >/tmp/ingestb_${id}_suite.log 2>&1; then s=ok; fi
echo "$id: build=$b suite=$s"
if [ $b = ok ] && [ $s = ok ]; then
  mkdir -p /verif/benign/$id
  cp $src/patch.diff /verif/benign/$id/patch.diff
  cp $src/README.md /verif/benign/$id/README.md 2>/dev/null
  python3 - "$id" "$prop" <<PY
import json,sys,subprocess
id,prop=sys.argv[1:3]
head=subprocess.run(["git","-C","/repo","rev-parse","HEAD"],capture_output=True,text=True).stdout.strip()
json.dump({"id":id,"written_for_property":prop,"kind":"behaviour-preserving refactoring (sub-agent, property text and a scratch worktree only)",
 "confirmed":{"repo_head":head,"applies":True,"go_build":"ok","existing_suite_with_patch":"pass","how":"selftest/ingest_benign.sh in a scratch git worktree of /repo under /tmp, removed afterwards"}},
 open("/verif/benign/%s/meta.json"%id,"w"),indent=1)
PY
  rm -f /tmp/ingestb_${id}_*.log
  echo "STORED /verif/benign/$id"
else
  echo "NOT CONFIRMED"; exit 4
fi
