#!/bin/bash
# ingest_seed.sh <src_dir> <seed-id> <property> <demo-package-dir>
# Confirms a sub-agent's seeded breaking change in a scratch worktree of /repo
# (outside /repo and /verif), then stores it under /verif/seeded/<seed-id>/.
set -u
export GOFLAGS=-mod=mod GOPROXY=off GOSUMDB=off GOTOOLCHAIN=local
src=$1; id=$2; prop=$3; pkg=$4; extra=${5:-}
wt=$(mktemp -d /tmp/confirm-XXXXXX); rmdir $wt
git -C /repo worktree add -q --detach $wt HEAD || exit 2
cleanup() { git -C /repo worktree remove --force $wt 2>/dev/null; rm -rf $wt; }
trap cleanup EXIT
cd $wt
demo=$(ls $src/*_test.go 2>/dev/null | head -1)
res_build=fail; res_suite=fail; res_demo_with=unknown; res_demo_without=unknown
git apply $src/patch.diff || { echo "PATCH DOES NOT APPLY"; exit 3; }
if go build ./... 2>/tmp/ingest_${id}_build.log; then res_build=ok; fi
if go test -vet=off -count=1 ./... >/tmp/ingest_${id}_suite.log 2>&1; then res_suite=ok; fi
cp $demo $pkg/zz_seed_demo_test.go
if go test $extra -vet=off -count=1 -run 'Seed' ./$pkg/ >/tmp/ingest_${id}_demo_with.log 2>&1; then res_demo_with=pass; else res_demo_with=fail; fi
rm $pkg/zz_seed_demo_test.go
git checkout -q -- . 
cp $demo $pkg/zz_seed_demo_test.go
if go test $extra -vet=off -count=1 -run 'Seed' ./$pkg/ >/tmp/ingest_${id}_demo_without.log 2>&1; then res_demo_without=pass; else res_demo_without=fail; fi
rm $pkg/zz_seed_demo_test.go
echo "$id: build=$res_build suite=$res_suite demo_with_patch=$res_demo_with demo_without_patch=$res_demo_without"
if [ $res_build = ok ] && [ $res_suite = ok ] && [ $res_demo_with = fail ] && [ $res_demo_without = pass ]; then
  mkdir -p /verif/seeded/$id
  cp $src/patch.diff /verif/seeded/$id/patch.diff
  cp $demo /verif/seeded/$id/$(basename $demo)
  cp $src/README.md /verif/seeded/$id/README.md 2>/dev/null
  python3 - "$id" "$prop" "$pkg" <<PY
import json,sys,subprocess
id,prop,pkg=sys.argv[1:4]
head=subprocess.run(["git","-C","/repo","rev-parse","HEAD"],capture_output=True,text=True).stdout.strip()
json.dump({"id":id,"breaks_property":prop,"needs_to_manifest":"see README.md (written by the sub-agent that produced the change)",
 "demo":{"file":"zz_seed_demo_test.go","place_in":pkg,"run":"go test -vet=off -count=1 -run TestSeedDemo ./%s/"%pkg},
 "confirmed":{"repo_head":head,"applies":True,"go_build":"ok","existing_suite_with_patch":"pass","demo_with_patch":"fail","demo_without_patch":"pass",
   "how":"selftest/ingest_seed.sh in a scratch git worktree of /repo under /tmp, removed afterwards"},
 "checker_result":"pending"},open("/verif/seeded/%s/meta.json"%id,"w"),indent=1)
PY
  echo "STORED /verif/seeded/$id"
else
  echo "NOT CONFIRMED (see /tmp/ingest_${id}_*.log)"; tail -5 /tmp/ingest_${id}_demo_with.log; exit 4
fi
