#!/usr/bin/env python3
# regenerate selftest/corpus/seeded.json from /verif/seeded/*/meta.json
import json, glob, os
V=os.path.dirname(os.path.dirname(os.path.abspath(__file__)))
out=[]
for m in sorted(glob.glob(os.path.join(V,"seeded","*","meta.json"))):
    d=json.load(open(m))
    e={"id":"seeded-"+d["id"],"kind":"mutant","property":d.get("detected_by",d["breaks_property"]),"patch":"seeded/%s/patch.diff"%d["id"]}
    if d.get("checker_result")=="not-detectable":
        continue
    out.append(e)
json.dump(out,open(os.path.join(V,"selftest","corpus","seeded.json"),"w"),indent=1)
print(len(out),"seeded entries")
