#!/usr/bin/env python3
"""Sensitivity self-test of the static checkers.

Each corpus entry is a one-construct edit of the CURRENT /repo tree (find/replace
or a patch file), applied to a scratch copy outside /repo and /verif. The copy is
type-checked by the checker's own loader (it must still compile) and analysed
statically by bin/tdxlint; nothing from the repository is executed.

  kind=mutant  : the checker must report a violation of `property`
  kind=benign  : the checker must stay silent

Exit 0 when every applicable entry behaved as expected; 3 otherwise.
Entries whose edit no longer applies to an edited tree are skipped and counted.
"""
import json, os, re, shutil, subprocess, sys, tempfile, glob, concurrent.futures, time

VERIF = os.path.dirname(os.path.dirname(os.path.abspath(__file__)))
REPO = os.environ.get("TDX_REPO", "/repo")
BIN = os.environ.get("TDXBIN", os.path.join(VERIF, "bin", "tdxlint"))

def load_corpus(prop):
    out = []
    for f in sorted(glob.glob(os.path.join(VERIF, "selftest", "corpus", "*.json"))):
        for e in json.load(open(f)):
            if prop in (None, "all") or prop in e["property"].split(","):
                out.append(e)
    return out

def apply(entry, dst):
    if "patch" in entry:
        p = os.path.join(VERIF, entry["patch"])
        r = subprocess.run(["git", "apply", "--unsafe-paths", "--directory=" + dst, p], cwd="/", capture_output=True, text=True)
        if r.returncode != 0:
            r = subprocess.run(["patch", "-p1", "-s", "-d", dst, "-i", p], capture_output=True, text=True)
        return r.returncode == 0
    for ed in entry["edits"]:
        path = os.path.join(dst, ed["file"])
        s = open(path).read()
        if s.count(ed["find"]) != ed.get("count", 1):
            return False
        s = s.replace(ed["find"], ed["replace"])
        open(path, "w").write(s)
    return True

def run_entry(entry, prop_filter):
    tmp = tempfile.mkdtemp(prefix="tdxlint-mut-")
    try:
        dst = os.path.join(tmp, "repo")
        shutil.copytree(REPO, dst, ignore=shutil.ignore_patterns(".git"))
        if not apply(entry, dst):
            return entry, "skipped", "edit does not apply"
        results = []
        props = entry["property"].split(",")
        if prop_filter not in (None, "all"):
            props = [prop_filter]
        for prop in props:
            r = subprocess.run([BIN, "-property", prop, "-repo", dst, "-no-evidence"], capture_output=True, text=True)
            out = r.stdout + r.stderr
            if r.returncode == 2:
                return entry, "error", out[-800:]
            detected = r.returncode == 1 and ("VIOLATION property=" + prop) in out
            want = entry["kind"] == "mutant"
            if detected != want:
                return entry, "FAIL", ("not detected" if want else "false alarm") + " by " + prop + ": " + out[-1500:]
            if want and entry.get("expect_rule") and entry["expect_rule"] not in out:
                return entry, "FAIL", "detected, but not by rule " + entry["expect_rule"] + ": " + out[-1500:]
            rules = sorted(set(re.findall(r"rule (C\d\d/[A-Za-z0-9-]+)", out)))
            results.append(prop + (" by " + "+".join(rules) if rules else ""))
        return entry, "ok", ", ".join(results)
    finally:
        shutil.rmtree(tmp, ignore_errors=True)

def main():
    prop = sys.argv[1] if len(sys.argv) > 1 else "all"
    only = sys.argv[2] if len(sys.argv) > 2 else None
    corpus = load_corpus(prop)
    if only:
        corpus = [e for e in corpus if only in e["id"]]
    t0 = time.time()
    stats = {"ok": 0, "FAIL": 0, "skipped": 0, "error": 0}
    fails = []
    with concurrent.futures.ThreadPoolExecutor(max_workers=int(os.environ.get("SELFTEST_JOBS", "8"))) as ex:
        for entry, status, msg in ex.map(lambda e: run_entry(e, prop), corpus):
            stats[status] += 1
            print(f"  [{status}] {entry['id']} ({entry['kind']}, {entry['property']}) {msg if status != 'ok' or entry['kind'] == 'mutant' else ''}")
            if status in ("FAIL", "error"):
                fails.append(entry["id"])
    summary = {"entries": len(corpus), **stats, "wall_s": round(time.time() - t0, 1)}
    print("SELFTEST-SUMMARY " + json.dumps(summary))
    if fails:
        print("CHECKER-SELFTEST-FAIL " + " ".join(fails))
        sys.exit(3)

if __name__ == "__main__":
    main()
