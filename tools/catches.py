#!/usr/bin/env python3
"""Regenerate the 'which rule reports which change' table of DESIGN.md (section 7)
and the checker_result field of seeded/*/meta.json from a self-test log.

  python3 selftest/run.py all > /tmp/selftest.log ; python3 tools/catches.py /tmp/selftest.log
"""
import json, os, re, sys, glob
V=os.path.dirname(os.path.dirname(os.path.abspath(__file__)))
log=open(sys.argv[1]).read()
rows={}
for m in re.finditer(r"\[(ok|FAIL)\] (\S+) \(mutant, (\S+)\)\s*(.*)", log):
    st,id,prop,msg=m.groups()
    rows[id]=(st,prop,msg.strip())
def touched(patch):
    fs=[]
    for l in open(patch):
        m=re.match(r"^@@[^@]*@@ ?(?:func )?(\(?[^({]*)",l)
        if m:
            n=m.group(1).strip()
            n=re.sub(r"^\([^)]*\)\s*","",n)
            if n and not n.startswith("import") and n not in fs: fs.append(n)
    return ", ".join(fs[:4])
out=["| change | property | where | reported by |","|---|---|---|---|"]
for id in sorted(rows):
    st,prop,msg=rows[id]
    if not (id.startswith("seeded-") or "regress" in id): continue
    where=""
    if id.startswith("seeded-"):
        sid=id[len("seeded-"):]
        pf=os.path.join(V,"seeded",sid,"patch.diff")
        where=touched(pf) if os.path.exists(pf) else ""
        mf=os.path.join(V,"seeded",sid,"meta.json")
        if os.path.exists(mf):
            d=json.load(open(mf))
            d["checker_result"]=("detected: "+msg) if st=="ok" else "NOT detected"
            json.dump(d,open(mf,"w"),indent=1)
    else:
        m=re.search(r"regress-(D\d+)",id)
        where="revert of fix "+(m.group(1) if m else "")
    rep=msg if st=="ok" else "**not reported**"
    rep=re.sub(r"C\d\d by ","",rep)
    out.append(f"| {id} | {prop} | {where} | {rep} |")
table="\n".join(out)
p=os.path.join(V,"DESIGN.md")
s=open(p).read()
a,b="<!-- catches:begin -->","<!-- catches:end -->"
if a in s:
    s=s[:s.index(a)+len(a)]+"\n"+table+"\n"+s[s.index(b):]
    open(p,"w").write(s)
print(len(out)-2,"rows")
