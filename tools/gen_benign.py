#!/usr/bin/env python3
"""gen_benign.py <status-file>

Maintenance tool (not used by any registered check). Reads the output of a run of
all 19 checks over every refactoring of /verif/benign (lines "[ok] <id>" /
"[FAIL] <id>" followed by "    Cxx rc=N" lines), records per refactoring which
properties still raise an alarm (benign/<id>/meta.json: still_alarms) and
regenerates selftest/corpus/benign_agents.json so that the self-test demands
silence for every other property.
"""
import glob
import json
import re
import sys

V = "/verif"
ALL = "C01,C02,C03,C04,C05,C06,C07,C08,C09,C10,C12,C13,C14,C15,C16,C17,C18,C19,C20".split(",")


def parse(fn):
    d, cur = {}, None
    for line in open(fn):
        m = re.match(r"\[(ok|FAIL)\] (\S+)", line)
        if m:
            cur = m.group(2)
            d[cur] = []
            continue
        m = re.match(r"\s+(C\d\d|apply) rc=", line)
        if m and cur:
            d[cur].append(m.group(1))
    return d


def main():
    status = parse(sys.argv[1])
    out, alarming = [], 0
    for mp in sorted(glob.glob(V + "/benign/*/meta.json")):
        meta = json.load(open(mp))
        ident = meta["id"]
        if ident not in status:
            sys.exit("no status for " + ident)
        if "apply" in status[ident]:
            sys.exit("patch of " + ident + " does not apply")
        alarms = sorted(status[ident])
        meta["still_alarms"] = alarms
        if alarms:
            alarming += 1
        json.dump(meta, open(mp, "w"), indent=1)
        out.append({
            "id": "agent-benign-" + ident,
            "kind": "benign",
            "property": ",".join(p for p in ALL if p not in alarms),
            "patch": "benign/%s/patch.diff" % ident,
        })
    json.dump(out, open(V + "/selftest/corpus/benign_agents.json", "w"), indent=1)
    print("%d refactorings, %d still raise an alarm somewhere" % (len(out), alarming))
    for o in out:
        ident = o["id"][len("agent-benign-"):]
        if status[ident]:
            print("  ", ident, ",".join(sorted(status[ident])))


if __name__ == "__main__":
    main()
