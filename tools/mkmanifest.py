#!/usr/bin/env python3
"""Regenerate /verif/MANIFEST.json from the per-property table below."""
import json, os
V=os.path.dirname(os.path.dirname(os.path.abspath(__file__)))
props=[json.loads(l) for l in open(os.path.join(V,'properties.jsonl'))]
T="static analysis: "
claims={
 "C01":("SSA provenance terms + dominance of accept edges on the pruned interprocedural CFG; layout tiling of the signed serialisers",
        "Every accept path of verify.TdxQuote (all four option assignments) is shown to pass the ECDSA check of sha256(header||body) with the in-quote key, the on-curve/size gates, the QE-report signature check with the leaf of the embedded chain and the report-data hash binding, each with the stated operands; SignatureToDER's r/s split and RawTdxQuote's delegation are decided structurally."),
 "C02":("must-pass-through gates with operand provenance + who-may-call table for certificate pools + single-writer rule for the embedded root",
        "All accept paths enforce the per-role certificate gates on PEM blocks 0/1/2 and leaf.Verify against options.TrustedRoots (or a fresh pool holding only the embedded root); every AddCert/AppendCertsFromPEM site in the repository is one of the confirmed shapes; the embedded root is written once from the go:embed'ed Intel SGX Root CA; RootOfTrustToOptions trusts exactly the listed bundles."),
 "C03":("must-pass-through gates with operand provenance + signed-bytes-only dataflow rule over an access-path heap with merging decoders",
        "For both collateral documents every accept path with GetCollateral enforces the issuer-chain, role, path-validation and raw-member signature gates with the stated operands, and every decoded value consumed by any gate is decoded from the very bytes whose signature is checked."),
 "C04":("must-pass-through gates with operand provenance, first-match loop structure, exact-selection rule, unit propagation over path gates, error-flow",
        "Identity gates, the shape/sides/operators/indices of the platform and TDX-module level selection, first-match order, UpToDate verdicts for platform and (when TEE_TCB_SVN[1]>0) module level on every accept path, and the reporting API returning both selector errors."),
 "C05":("must-pass-through gates with operand provenance + complete (break-free, full-range) forall scan gates + partition emptiness",
        "With revocation on, every accept path fetches, parses and authenticates both CRLs against the stated certificates, checks PCK-CRL issuer == leaf issuer, and scans the right CRL for the right serial over the whole list; CheckRevocations without GetCollateral has no accept path."),
 "C06":("pairing table over enforced time gates + exactness of time comparisons + default time set shape",
        "Every time-bearing artifact has an enforced !now.After(expiry) gate against its own TimeSet field in the partition that fetches it, no time gate pairs an artifact with a foreign field, x509 validations run at the matching field, and the default time set is five time.Now() calls."),
 "C07":("must-pass-through gates with operand provenance + first-match/exact-selection loop structure + decoder exhaustiveness + read-only table for decoded collateral",
        "QE report vs signed QE Identity: masked MISCSELECT and ATTRIBUTES, MRSIGNER, ISVPRODID, first-match level with isvsvn <= ISVSVN, UpToDate; status decoder accepts exactly the declared statuses; decoded collateral reaches only read-only library functions."),
 "C12":("gate-set inclusion across option partitions + reachable call-site enumeration on the pruned inlined call tree + who-may-write on Options + package-state rule",
        "Sufficient condition for monotonicity (gate-set inclusion), fetch gating per option assignment with URL/getter provenance, CA selection, URL builder formats, and absence of history: only unexported per-call fields of the caller's Options are stored (each before its first reader) and no package-level mutable state is touched. The store of options.Now is reported as a known finding."),
 "C17":("dominating argument gates + who-receives-the-client enumeration + provenance of the digest term",
        "Index/digest/algorithm/empty-log gates dominate the single call that receives the TSM client, which gets the caller's index and digest (or Sum(nil) of a fresh hash fed exactly the event log) unmodified. The history clause (entry re-use, extend chain) is inside go-configfs-tsm and is not decided."),
 "C18":("must-pass-through gates with operand provenance + loop structure of the bank builder",
        "A nil-error return of ParseCcelWithTdQuote implies both gates on the same quote and returns ReplayAndExtract's result for a bank holding every RTMR of the quote at its own index; error returns carry no state; default options bind REPORT_DATA to the nonce."),
 "C20":("CFG/dominance structure of the retry loop + min-shape and loop-carried-value rules on SSA",
        "First success returned intact from the single attempt site that dominates every return; every retry passes a blocking select with a capped, loop-carried timer and a once-created deadline context whose case returns an error; default configuration. Elapsed-time bounds are not decided."),
 "C08":("layered contracts: per-helper success-path gates + exhaustive pairing table over the option structs + operands of the returned multierr.Combine + crash-obligation discharge below validate.TdxQuote",
        "Leaf contracts (exact match / skip when empty / size, RTMR index pairing, any-of membership, component-wise minimum, fixed-0/fixed-1 masks), exhaustive wiring of every option field to the same-named quote field and abi size, the structural pre-check first, and all results combined into the returned error."),
 "C13":("OID table + single-store/guard rules on the selection loops + range gates + structure gates + per-call-site Unmarshal discipline + assertion dominance",
        "OID values, one OID-guarded store per result field from the same element with its own size, index-consistent component loop over all 16 indices for every element (order independence), range gates before narrowing, sequence sizes, error and leftover checks on all asn1.Unmarshal sites, comma-ok assertions."),
 "C14":("type-driven bijection between policy message fields and option fields + range gates + exhaustive length-check table with same-named abi constants",
        "Every option field equals the same-named policy field, every policy field is consumed, 16-bit minimums are range-gated, and every byte-string option (including the minimum TEE TCB SVN) is length-checked with the abi constant of the same name before conversion succeeds."),
 "C15":("must-pass-through gates over an access-path heap with opaque-call havoc (device writes) + provenance of request/response buffers",
        "Two-step device protocol with the caller's report data and the device-written TD report relayed through full-width copies, all result/status/OutLen gates enforced for the success return, which is exactly hdr.Data[:OutLen] of the header the device wrote; provider results returned verbatim when supported, fallback otherwise; GetQuote parses exactly the raw bytes; every index/slice/dereference below GetRawQuote is discharged."),
 "C19":("must-pass-through gates on main with no-return calls as terminators + exit-code table by dominance + typed-error wrap discipline + flag/field/size pairing table + non-nil population rule",
        "Exit 0 only behind verification and validation with the effective options; exit codes by error source; typed download errors producible and preserved by every wrap (%w); errors.As drives code 3; each flag overrides exactly its same-named field with the right size and only when set; parseConfig leaves no nil sub-message; index/slice bounds, assertions and loops of the tool's own code are discharged."),
 "C09":("wire-layout extraction from SSA (writes of serialisers, field sources of parsers), tiling, parser/serialiser agreement, independent oracle from proto/tdx.proto, narrowing-conversion rule, term tables for the variable tail",
        "Same field <-> same bytes in both directions without gap or overlap for the fixed parts, agreeing with a layout derived independently from the .proto; the stated slices, size/type headers, exact size equalities and concatenation order for the variable tail; pinned constants; the validity predicate closing the parser and opening the serialiser. Byte equality on concrete inputs is a consequence, not what is decided."),
 "C10":("crash-obligation discharge on the inlined call trees of the entry points: linear arithmetic over lengths with the dominating gates and call-site facts (bounds), non-nil provenance (dereferences), assertion/division/make rules, narrowing and wrap-around rules, counted-loop and acyclic-call-tree rule (termination); trace partitioning over the option flags",
        "Every index, slice, encoding/binary access, pointer dereference, non-comma-ok assertion, explicit panic, make, division, narrowing conversion and loop reachable from the public parsing, serialisation, verification, validation, chain-extraction and PCK-extension entry points is shown safe for all inputs at once from the checks that dominate it (inputs unconstrained: any bytes, any message shape with any nil pointer and any field length, any getter response). Panics inside dependencies, stack depth and memory are outside the analysed program; lengths are assumed below 2^31."),
 "C16":("effects analysis by alias roots over provenance terms: enumeration of every potential write (append, copy, indexed store, PutUintN, non-read-only library callee, message-field store) on the inlined call trees + single-writer rule for package variables",
        "Parsed byte slices alias only memory cloned inside the parse; no potential write below the verification, validation, chain-extraction and serialisation entry points has a destination rooted in the quote message, the raw input, option byte strings or package variables; package variables on those paths are read-only after initialisation. A sufficient condition for race freedom on a shared quote for every schedule."),
}
na={"C11":"acceptance of every honest quote is an existential, value-dependent completeness property; no structural necessary condition of it is both statically checkable and sensitive to realistic over-strict changes (DESIGN.md section 4/C11)"}
setup="cd /verif/checker && GOFLAGS=-mod=mod GOPROXY=off GOSUMDB=off GOTOOLCHAIN=local GOWORK=off go build -o /verif/bin/tdxlint ./cmd/tdxlint"
m={"version":1,"setup_cmd":setup,
 "hooks":{"guard":"verif","enable":"none: the checks are static and read /repo's source as it is; no hooks or instrumentation are added","baseline_off_cmd":"cd /repo && GOFLAGS=-mod=mod go test -vet=off -count=1 ./...","source_commits":[],"add_only":True},
 "engines":[{"name":"tdxlint","path":"checker/","serves_properties":sorted(claims),"kind_free_text":"repository-specific static analyser over go/packages + go/ssa: provenance terms, pruned-CFG dominance (must-pass-through gates), access-path heap, layout tiling, bounds/nil obligations, effects, tables"}],
 "checks":[],"not_applicable":[],
 "notes":"All checks are static analysis of /repo's current source (go/packages + go/ssa); nothing from the repository is executed. thorough = quick rules on four build configurations + sensitivity self-test (mutant / seeded / benign corpus and whole-repository benign rewrites applied to scratch copies, analysed statically). See DESIGN.md."}
for p in props:
    i=p['id']
    if i in claims:
        tech,text=claims[i]
        m["checks"].append({"property_id":i,
          "quick_cmd":"bin/tdxlint -property %s -tier quick"%i,
          "thorough_cmd":"bin/tdxlint -property %s -tier thorough && python3 selftest/run.py %s && python3 selftest/benign_global.py '' %s"%(i,i,i),
          "evidence_file":"evidence/%s.json"%i,
          "replay_cmd_template":"bin/tdxlint -explain {path}",
          "engine":"tdxlint",
          "level_claimed":{"category":"other","text":"Structural clauses decided for all inputs/configurations at once by static analysis: "+text+" Not a proof of the behavioural statement; the undecided part is listed under not_covered in the evidence.","design_ref":"DESIGN.md section 4 / "+i},
          "level_note":"trusted base: semantics of the Go standard library and dependencies (contracts named in the evidence file), go/ssa, go/types",
          "technique":T+tech})
    else:
        m["not_applicable"].append({"property_id":i,"reason":na.get(i,"not claimed yet: static checker for this property is still under construction")})
json.dump(m,open(os.path.join(V,'MANIFEST.json'),'w'),indent=1)
print("claimed",len(m["checks"]),"not_applicable",len(m["not_applicable"]))
