#!/usr/bin/env python3
"""benign_status.py [id-substring ...]

Maintenance tool (not used by any registered check). Applies every stored
behaviour-preserving refactoring of /verif/benign (or those whose id contains one
of the given substrings) to a scratch copy of /repo outside /repo and /verif,
runs all claimed quick checks on it and prints, per refactoring, which checks
raise an alarm. The scratch copies are removed afterwards. Its output is the
input of tools/gen_benign.py.  Environment: TDXBIN (checker binary), JOBS.
"""
import os,subprocess,sys,glob,shutil,tempfile,json,concurrent.futures
V="/verif"; BIN=os.environ.get("TDXBIN",V+"/bin/tdxlint")
props=[c["property_id"] for c in json.load(open(V+"/MANIFEST.json"))["checks"]]
ids=sorted(os.path.basename(os.path.dirname(p)) for p in glob.glob(V+"/benign/*/patch.diff"))
if len(sys.argv)>1: ids=[i for i in ids if any(a in i for a in sys.argv[1:])]
J=int(os.environ.get("JOBS","12"))
def prep(id):
    tmp=tempfile.mkdtemp(prefix="tdxlint-bn-"); dst=tmp+"/repo"
    shutil.copytree("/repo",dst,ignore=shutil.ignore_patterns(".git"))
    r=subprocess.run(["patch","-p1","-s","-d",dst,"-i",f"{V}/benign/{id}/patch.diff"],capture_output=True,text=True)
    return id,tmp,dst,r
def one(a):
    id,dst,p=a
    r=subprocess.run([BIN,"-property",p,"-repo",dst,"-no-evidence"],capture_output=True,text=True)
    if r.returncode!=0:
        lines=[l for l in (r.stdout+r.stderr).splitlines() if "rule " in l or "failed" in l]
        return id,p,r.returncode,lines[:4]
    return id,p,0,[]
with concurrent.futures.ThreadPoolExecutor(max_workers=J) as ex:
    preps=list(ex.map(prep,ids))
    bad={id:[] for id in ids}
    tasks=[]
    for id,tmp,dst,r in preps:
        if r.returncode!=0: bad[id].append(("apply",r.stderr[:200],[]))
        else: tasks+= [(id,dst,p) for p in props]
    for id,p,rc,lines in ex.map(one,tasks):
        if rc!=0: bad[id].append((p,rc,lines))
    for id,tmp,dst,r in preps: shutil.rmtree(tmp,ignore_errors=True)
for id in ids:
    print(("[ok] " if not bad[id] else "[FAIL] ")+id,flush=True)
    for p,rc,lines in bad[id]:
        print(f"    {p} rc={rc}")
        for l in lines: print("      "+l[:300])
